#!/bin/sh
# usage: tools/try_seed.sh <patch.diff> <ID> [tier]   — apply a seeded change to /repo, run the check, undo
P="$1"; ID="$2"; T="${3:-quick}"
cd /repo || exit 9
if ! git apply --check "$P" 2>/dev/null; then
  if ! git apply --3way --check "$P" 2>/dev/null; then echo "PATCH-DOES-NOT-APPLY $P"; exit 8; fi
  git apply --3way "$P" >/dev/null 2>&1
else
  git apply "$P"
fi
cd /verif && ./check "$ID" "$T"; rc=$?
cd /repo && git checkout -- . && git reset -q 2>/dev/null
echo "seed=$P property=$ID rc=$rc"
exit $rc
