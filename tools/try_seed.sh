#!/bin/sh
# usage: tools/try_seed.sh <patch.diff> <ID> [tier]   — apply a seeded change to /repo, run the check, undo
P="$1"; ID="$2"; T="${3:-quick}"
cd /repo || exit 9
if [ -n "$(git status --porcelain)" ]; then echo "REPO-DIRTY: refusing to apply a seed"; exit 7; fi
if git apply --check "$P" 2>/dev/null; then git apply "$P"
elif git apply --3way "$P" >/dev/null 2>&1 && [ -z "$(git diff --name-only --diff-filter=U)" ]; then :
else git reset -q --hard HEAD; echo "PATCH-DOES-NOT-APPLY $P"; exit 8; fi
# the evidence file written while the seed is applied describes the broken tree: keep it aside, restore the real one
cp "/verif/evidence/$ID.json" "/verif/build/evidence_$ID.keep" 2>/dev/null
cd /verif && ./check "$ID" "$T"; rc=$?
cp "/verif/evidence/$ID.json" "/verif/build/evidence_$ID.seeded" 2>/dev/null
[ -f "/verif/build/evidence_$ID.keep" ] && mv "/verif/build/evidence_$ID.keep" "/verif/evidence/$ID.json"
cd /repo && git reset -q --hard HEAD
echo "seed=$P property=$ID rc=$rc"
exit $rc
