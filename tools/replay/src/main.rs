//! vx-replay: run a counterexample (a short script of public-API calls) against the REAL ferrous library.
//! Usage: vx-replay '<json script>'   where script = [{"op": "...", "args": [...]}, ...]
//! Every step prints `step <i> <op> => <Debug of result>`; a panic prints `PANIC: <msg>` and exits 101.
use ferrous::protocol::parser::{parse_resp_frame, RespParser};
use ferrous::protocol::serializer::serialize_resp_frame;
use ferrous::protocol::resp::RespFrame;
use ferrous::storage::engine::StorageEngine;
use serde_json::Value as J;
use std::time::Duration;
use ferrous::network::blocking::BlockingManager;
use ferrous::network::connection::BlockingOp;

fn bytes(v: &J) -> Vec<u8> {
    match v {
        J::String(s) => s.chars().map(|c| c as u32 as u8).collect(),
        J::Array(a) => a.iter().map(|x| x.as_u64().unwrap() as u8).collect(),
        _ => panic!("bad bytes arg {v}"),
    }
}
fn int(v: &J) -> i64 {
    match v {
        J::Number(n) => n.as_i64().unwrap_or_else(|| n.as_u64().unwrap() as i64),
        J::String(s) => match s.as_str() {
            "isize::MIN" | "i64::MIN" => i64::MIN,
            "isize::MAX" | "i64::MAX" => i64::MAX,
            "usize::MAX" | "u64::MAX" => -1i64,
            _ => s.parse::<i64>().unwrap_or_else(|_| s.parse::<u64>().unwrap() as i64),
        },
        _ => panic!("bad int arg {v}"),
    }
}
fn f(v: &J) -> f64 {
    match v {
        J::Number(n) => n.as_f64().unwrap(),
        J::String(s) => s.parse::<f64>().unwrap(),
        _ => panic!("bad float {v}"),
    }
}
fn blist(v: &J) -> Vec<Vec<u8>> {
    v.as_array().unwrap().iter().map(bytes).collect()
}

fn main() {
    let arg = std::env::args().nth(1).expect("script");
    let script: J = serde_json::from_str(&arg).expect("json");
    let e = StorageEngine::new();
    let mut parser = RespParser::new();
    let mut baseline: u64 = 0;
    let bm = BlockingManager::new(16);
    let ps = ferrous::pubsub::PubSubManager::new();
    let r = std::panic::catch_unwind(std::panic::AssertUnwindSafe(|| {
        for (i, st) in script.as_array().unwrap().iter().enumerate() {
            let op = st["op"].as_str().unwrap();
            let a = st["args"].as_array().cloned().unwrap_or_default();
            let db = st.get("db").and_then(|d| d.as_u64()).unwrap_or(0) as usize;
            let out: String = match op {
                "set_string" => format!("{:?}", e.set_string(db, bytes(&a[0]), bytes(&a[1]))),
                "set_string_ex_ms" => format!("{:?}", e.set_string_ex(db, bytes(&a[0]), bytes(&a[1]), Duration::from_millis(int(&a[2]) as u64))),
                "set_string_nx" => format!("{:?}", e.set_string_nx(db, bytes(&a[0]), bytes(&a[1]))),
                "get_string" => format!("{:?}", e.get_string(db, &bytes(&a[0]))),
                "exists" => format!("{:?}", e.exists(db, &bytes(&a[0]))),
                "delete" => format!("{:?}", e.delete(db, &bytes(&a[0]))),
                "key_type" => format!("{:?}", e.key_type(db, &bytes(&a[0]))),
                "expire_ms" => format!("{:?}", e.expire(db, &bytes(&a[0]), Duration::from_millis(int(&a[1]) as u64))),
                "expire_secs" => format!("{:?}", e.expire(db, &bytes(&a[0]), Duration::from_secs(int(&a[1]) as u64))),
                "register_watch" => { let b = e.register_watch(db, &bytes(&a[0])); baseline = *b.as_ref().unwrap_or(&0); format!("{:?}", b.map(|_| "baseline")) }
                "was_modified_since" => format!("{:?}", e.was_modified_since(db, &bytes(&a[0]), baseline)),
                "flush_db" => format!("{:?}", e.flush_db(db)),
                "blocking_register" => format!("{:?}", bm.register_blocked(db, int(&a[0]) as u64, blist(&a[1]), BlockingOp::BLPop, None)),
                "blocking_notify" => { bm.notify_key_ready(db, &bytes(&a[0])); "()".into() }
                "blocking_wakeups" => format!("{:?}", bm.process_wakeups().iter().map(|w| (w.conn_id, String::from_utf8_lossy(&w.key).to_string())).collect::<Vec<_>>()),
                "blocking_has" => format!("{:?}", bm.has_blocked_clients(db, &bytes(&a[0]))),
                "subscribe" => format!("{:?}", ps.subscribe(int(&a[0]) as u64, blist(&a[1])).map(|v| v.len())),
                "psubscribe" => format!("{:?}", ps.psubscribe(int(&a[0]) as u64, blist(&a[1])).map(|v| v.len())),
                "publish" => format!("{:?}", ps.publish(&bytes(&a[0]), b"m").map(|mut v| { v.sort(); v.iter().map(|(c, p)| (*c, p.as_ref().map(|x| String::from_utf8_lossy(x).to_string()))).collect::<Vec<_>>() })),
                "xadd_id" => format!("{:?}", e.xadd_with_id(db, bytes(&a[0]), ferrous::storage::stream::StreamId::new(int(&a[1]) as u64, int(&a[2]) as u64), std::collections::HashMap::new()).map(|i| i.to_string())),
                "xadd_auto" => format!("{:?}", e.xadd(db, bytes(&a[0]), std::collections::HashMap::new()).map(|i| (i.millis() > 1_000_000, i.seq()))),
                "xrange" => format!("{:?}", e.xrange(db, &bytes(&a[0]), ferrous::storage::stream::StreamId::new(int(&a[1]) as u64, int(&a[2]) as u64), ferrous::storage::stream::StreamId::new(int(&a[3]) as u64, int(&a[4]) as u64), None).map(|v| v.iter().map(|x| x.id.to_string()).collect::<Vec<_>>())),
                "xrevrange" => format!("{:?}", e.xrevrange(db, &bytes(&a[0]), ferrous::storage::stream::StreamId::new(int(&a[1]) as u64, int(&a[2]) as u64), ferrous::storage::stream::StreamId::new(int(&a[3]) as u64, int(&a[4]) as u64), None).map(|v| v.iter().map(|x| x.id.to_string()).collect::<Vec<_>>())),
                "sweeper_race" => {
                    // keys of ONE shard get a TTL that passes just before a sweeper pass; writer threads then overwrite
                    // each key exactly once WITHOUT TTL around the pass. A key missing at the end was deleted by the
                    // sweeper although it had no TTL any more (collected in the scan phase, overwritten before the delete phase).
                    let rounds = int(&a[0]) as usize;
                    let mut missing_total = 0usize;
                    for _round in 0..rounds {
                        let eng = StorageEngine::new();
                        let created = std::time::Instant::now();
                        // keys in the same shard as "k0": brute-force by probing with a sentinel rename? no: use many keys, all shards
                        let n = 60000usize;
                        let keys: Vec<Vec<u8>> = (0..n).map(|i| format!("key:{}", i).into_bytes()).collect();
                        for k in &keys { eng.set_string_ex(0, k.clone(), b"old".to_vec(), Duration::from_millis(600)).unwrap(); }
                        // sweeper wakes ~1000 ms after engine creation; start writers shortly before
                        let wait = Duration::from_millis(940).saturating_sub(created.elapsed());
                        std::thread::sleep(wait);
                        let mut hs = Vec::new();
                        let nthreads = 32usize;
                        for t in 0..nthreads {
                            let eng2 = eng.clone();
                            let ks: Vec<Vec<u8>> = keys.iter().skip(t).step_by(nthreads).cloned().collect();
                            hs.push(std::thread::spawn(move || { for k in ks { eng2.set_string(0, k, b"live".to_vec()).unwrap(); } }));
                        }
                        for h in hs { h.join().unwrap(); }
                        std::thread::sleep(Duration::from_millis(300));
                        let missing = keys.iter().filter(|k| !eng.exists(0, k).unwrap()).count();
                        missing_total += missing;
                    }
                    format!("missing_live_keys={}", missing_total)
                }
                "persist" => format!("{:?}", e.persist(db, &bytes(&a[0]))),
                "pttl" => format!("{:?}", e.pttl(db, &bytes(&a[0])).map(|t| if t > 0 { 1 } else { t })),
                "sleep_ms" => { std::thread::sleep(Duration::from_millis(int(&a[0]) as u64)); "()".into() }
                "incr_by" => format!("{:?}", e.incr_by(db, bytes(&a[0]), int(&a[1]))),
                "append" => format!("{:?}", e.append(db, bytes(&a[0]), bytes(&a[1]))),
                "strlen" => format!("{:?}", e.strlen(db, &bytes(&a[0]))),
                "getrange" => format!("{:?}", e.getrange(db, &bytes(&a[0]), int(&a[1]) as isize, int(&a[2]) as isize)),
                "setrange" => format!("{:?}", e.setrange(db, bytes(&a[0]), int(&a[1]) as usize, bytes(&a[2]))),
                "rename" => format!("{:?}", e.rename(db, &bytes(&a[0]), bytes(&a[1]))),
                "lpush" => format!("{:?}", e.lpush(db, bytes(&a[0]), blist(&a[1]))),
                "rpush" => format!("{:?}", e.rpush(db, bytes(&a[0]), blist(&a[1]))),
                "lpop" => format!("{:?}", e.lpop(db, &bytes(&a[0]))),
                "rpop" => format!("{:?}", e.rpop(db, &bytes(&a[0]))),
                "llen" => format!("{:?}", e.llen(db, &bytes(&a[0]))),
                "lrange" => format!("{:?}", e.lrange(db, &bytes(&a[0]), int(&a[1]) as isize, int(&a[2]) as isize)),
                "lindex" => format!("{:?}", e.lindex(db, &bytes(&a[0]), int(&a[1]) as isize)),
                "lset" => format!("{:?}", e.lset(db, bytes(&a[0]), int(&a[1]) as isize, bytes(&a[2]))),
                "ltrim" => format!("{:?}", e.ltrim(db, bytes(&a[0]), int(&a[1]) as isize, int(&a[2]) as isize)),
                "lrem" => format!("{:?}", e.lrem(db, bytes(&a[0]), int(&a[1]) as isize, bytes(&a[2]))),
                "sadd" => format!("{:?}", e.sadd(db, bytes(&a[0]), blist(&a[1]))),
                "scard" => format!("{:?}", e.scard(db, &bytes(&a[0]))),
                "srandmember" => format!("{:?}", e.srandmember(db, &bytes(&a[0]), int(&a[1])).map(|v| v.len())),
                "spop" => format!("{:?}", e.spop(db, bytes(&a[0]), int(&a[1]) as usize).map(|v| v.len())),
                "hset" => format!("{:?}", e.hset(db, bytes(&a[0]), vec![(bytes(&a[1]), bytes(&a[2]))])),
                "hset_pairs" => format!("{:?}", e.hset(db, bytes(&a[0]), a[1].as_array().unwrap().iter().map(|p| (bytes(&p[0]), bytes(&p[1]))).collect())),
                "hget" => format!("{:?}", e.hget(db, &bytes(&a[0]), &bytes(&a[1]))),
                "hincrby" => format!("{:?}", e.hincrby(db, bytes(&a[0]), bytes(&a[1]), int(&a[2]))),
                "zadd" => format!("{:?}", e.zadd(db, bytes(&a[0]), bytes(&a[1]), f(&a[2]))),
                "zincrby" => format!("{:?}", e.zincrby(db, bytes(&a[0]), bytes(&a[1]), f(&a[2]))),
                "zscore" => format!("{:?}", e.zscore(db, &bytes(&a[0]), &bytes(&a[1]))),
                "zrem" => format!("{:?}", e.zrem(db, &bytes(&a[0]), &bytes(&a[1]))),
                "zrange" => format!("{:?}", e.zrange(db, &bytes(&a[0]), int(&a[1]) as isize, int(&a[2]) as isize, a.get(3).and_then(|b| b.as_bool()).unwrap_or(false))),
                "zrank" => format!("{:?}", e.zrank(db, &bytes(&a[0]), &bytes(&a[1]), a.get(2).and_then(|b| b.as_bool()).unwrap_or(false))),
                "scan" => format!("{:?}", e.scan(db, int(&a[0]) as u64, a.get(2).filter(|p| !p.is_null()).map(bytes).as_deref(), None, int(&a[1]) as usize)),
                "parse_resp_frame" => format!("{:?}", parse_resp_frame(&bytes(&a[0]))),
                "parser_feed" => { parser.feed(&bytes(&a[0])); "()".into() }
                "parser_parse" => format!("{:?}", parser.parse()),
                "serialize_error" => { let mut out = Vec::new(); let r = serialize_resp_frame(&RespFrame::Error(std::sync::Arc::new(bytes(&a[0]))), &mut out); format!("{:?} {:?}", r, String::from_utf8_lossy(&out)) }
                _ => { println!("step {i} {op} => UNKNOWN-OP"); std::process::exit(3); }
            };
            println!("step {i} {op} => {out}");
        }
    }));
    if let Err(p) = r {
        let msg = p.downcast_ref::<String>().cloned().or_else(|| p.downcast_ref::<&str>().map(|s| s.to_string())).unwrap_or_default();
        println!("PANIC: {msg}");
        std::process::exit(101);
    }
}
