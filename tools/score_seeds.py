#!/usr/bin/env python3
"""Run every seeded change through its property's check (tools/try_seed.sh: apply to /repo, check, hard-reset) and record the
result in seeded/<ID>/meta.json under "detection". usage: tools/score_seeds.py [ID ...] [--tier quick|thorough] [--copy]
--copy applies the patch to a scratch copy of /repo's sources (tools/try_seed_copy.sh) instead of /repo itself; a patch that needs a
three-way merge does not apply there and keeps its previous record."""
import json, os, re, subprocess, sys
V = '/verif'
args = [a for a in sys.argv[1:] if not a.startswith('--')]
tier = 'quick'
runner = 'try_seed_copy.sh' if '--copy' in sys.argv else 'try_seed.sh'
if '--tier' in sys.argv:
    tier = sys.argv[sys.argv.index('--tier') + 1]
claimed = {c['property_id'] for c in json.load(open(f'{V}/MANIFEST.json'))['checks']}
rows = []
for d in sorted(os.listdir(f'{V}/seeded')):
    if args and d not in args:
        continue
    mp = f'{V}/seeded/{d}/meta.json'
    if not os.path.exists(mp):
        continue
    meta = json.load(open(mp))
    pid = meta.get('property', d.split('_')[0])
    if pid not in claimed:
        meta['detection'] = {'result': 'property-not-claimed'}
    else:
        t = 'thorough' if meta.get('needs_tier') == 'thorough' else tier
        p = subprocess.run([f'{V}/tools/{runner}', f'{V}/seeded/{d}/patch.diff', pid, t], capture_output=True, text=True)
        out = p.stdout
        if p.returncode == 8:
            print(d, 'patch-does-not-apply (record kept)', flush=True)
            continue
        obl = re.findall(r'^  obligation: (.*)$', out, re.M)
        und = re.findall(r'^UNDECIDED .*?"reason": "([^"]*)', out, re.M)
        res = {0: 'missed', 1: 'violation', 2: 'undecided'}.get(p.returncode, f'error-{p.returncode}')
        meta['detection'] = {'result': res, 'tier': t, 'exit': p.returncode, 'obligations': sorted(set(o[:160] for o in obl))[:6], 'undecided_reason': [u[:200] for u in und][:3]}
    json.dump(meta, open(mp, 'w'), indent=1)
    rows.append((d, meta['detection']['result'], (meta['detection'].get('obligations') or [''])[0][:90]))
    print(*rows[-1], flush=True)
