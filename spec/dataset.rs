// ---- abstract dataset seen by the command layer: (db, key) -> abstract value. This is the ORACLE state for handler
// contracts; the engine methods' contracts over it are ASSUMED at this level and are what the shard-level units prove
// per shard (modulo R2 and get_shard routing).
verus! {
pub enum DV {
    Str(Seq<u8>), List(Seq<Vec<u8>>), Set(Set<Vec<u8>>), Hash(Map<Vec<u8>, Vec<u8>>), ZSet, Stream,
}
pub type DS = Map<(int, Seq<u8>), DV>;
pub open spec fn ds_get(ds: DS, db: int, k: Seq<u8>) -> Option<DV> { if ds.contains_key((db, k)) { Some(ds[(db, k)]) } else { None } }
pub open spec fn is_str(ds: DS, db: int, k: Seq<u8>) -> bool { ds_get(ds, db, k) matches Some(DV::Str(_)) }
pub open spec fn absent(ds: DS, db: int, k: Seq<u8>) -> bool { !ds.contains_key((db, k)) }
pub open spec fn wrong_type_for_str(ds: DS, db: int, k: Seq<u8>) -> bool { ds.contains_key((db, k)) && !(ds[(db, k)] is Str) }
}
