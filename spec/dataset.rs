// ---- ORACLE for the command layer: abstract dataset (db, key) -> abstract value, abstract replies, and one spec
// function per command giving (reply, dataset afterwards) — "the reply Redis semantics prescribe for the dataset
// produced by the preceding commands, and the dataset afterwards" (C01/C03), TTLs aside.
verus! {
pub enum DV {
    Str(Seq<u8>), List(Seq<Vec<u8>>), Set(Set<Vec<u8>>), Hash(Map<Vec<u8>, Vec<u8>>), ZSet, Stream,
}
pub type DS = Map<(int, Seq<u8>), DV>;
pub open spec fn ds_get(ds: DS, db: int, k: Seq<u8>) -> Option<DV> { if ds.contains_key((db, k)) { Some(ds[(db, k)]) } else { None } }

/// abstract reply
pub enum RV { Int(int), Bulk(Option<Seq<u8>>), Okay, Arr(Seq<Seq<u8>>), ArrSet(Set<Vec<u8>>), WrongType, OtherErr }

// ---- strings
/// INCRBY / DECRBY / INCR / DECR: absent counts as 0; the stored text must be a decimal i64; the sum must fit
pub open spec fn spec_incrby(ds: DS, db: int, k: Seq<u8>, inc: i64) -> (RV, DS) {
    match ds_get(ds, db, k) {
        None => (RV::Int(inc as int), ds.insert((db, k), DV::Str(i64_str(inc)))),
        Some(DV::Str(b)) => match spec_parse_i64(b) {
            None => (RV::OtherErr, ds),
            Some(cur) => if i64::MIN <= cur + inc <= i64::MAX { (RV::Int(cur + inc), ds.insert((db, k), DV::Str(i64_str((cur + inc) as i64)))) } else { (RV::OtherErr, ds) },
        },
        Some(_) => (RV::WrongType, ds),
    }
}
pub open spec fn spec_append(ds: DS, db: int, k: Seq<u8>, v: Seq<u8>) -> (RV, DS) {
    match ds_get(ds, db, k) {
        None => (RV::Int(v.len() as int), ds.insert((db, k), DV::Str(v))),
        Some(DV::Str(b)) => (RV::Int((b.len() + v.len()) as int), ds.insert((db, k), DV::Str(b + v))),
        Some(_) => (RV::WrongType, ds),
    }
}
pub open spec fn spec_strlen(ds: DS, db: int, k: Seq<u8>) -> (RV, DS) {
    match ds_get(ds, db, k) { None => (RV::Int(0), ds), Some(DV::Str(b)) => (RV::Int(b.len() as int), ds), Some(_) => (RV::WrongType, ds) }
}
pub open spec fn spec_getrange_cmd(ds: DS, db: int, k: Seq<u8>, start: int, end: int) -> (RV, DS) {
    match ds_get(ds, db, k) {
        None => (RV::Bulk(Some(Seq::<u8>::empty())), ds),
        Some(DV::Str(b)) => (RV::Bulk(Some(spec_getrange(b, start, end))), ds),
        Some(_) => (RV::WrongType, ds),
    }
}
pub open spec fn spec_setrange_cmd(ds: DS, db: int, k: Seq<u8>, offset: int, v: Seq<u8>) -> (RV, DS) {
    if offset + v.len() > 536870912 { (RV::OtherErr, ds) } else {
    match ds_get(ds, db, k) {
        None => (RV::Int(offset + v.len()), ds.insert((db, k), DV::Str(spec_setrange(Seq::<u8>::empty(), offset, v)))),
        Some(DV::Str(b)) => (RV::Int(spec_setrange(b, offset, v).len() as int), ds.insert((db, k), DV::Str(spec_setrange(b, offset, v)))),
        Some(_) => (RV::WrongType, ds),
    } }
}
// ---- lists
pub open spec fn spec_push(ds: DS, db: int, k: Seq<u8>, e: Seq<Vec<u8>>, left: bool) -> (RV, DS) {
    match ds_get(ds, db, k) {
        None => { let l = if left { spec_lpush(Seq::<Vec<u8>>::empty(), e) } else { e }; (RV::Int(l.len() as int), ds.insert((db, k), DV::List(l))) },
        Some(DV::List(o)) => { let l = if left { spec_lpush(o, e) } else { spec_rpush(o, e) }; (RV::Int(l.len() as int), ds.insert((db, k), DV::List(l))) },
        Some(_) => (RV::WrongType, ds),
    }
}
pub open spec fn spec_pop(ds: DS, db: int, k: Seq<u8>, left: bool) -> (RV, DS) {
    match ds_get(ds, db, k) {
        None => (RV::Bulk(None), ds),
        Some(DV::List(o)) => if o.len() == 0 { (RV::Bulk(None), ds) } else {
            let x = if left { o[0] } else { o[o.len() - 1] };
            let rest = if left { o.subrange(1, o.len() as int) } else { o.subrange(0, o.len() - 1) };
            (RV::Bulk(Some(x@)), if rest.len() == 0 { ds.remove((db, k)) } else { ds.insert((db, k), DV::List(rest)) }) },
        Some(_) => (RV::WrongType, ds),
    }
}
pub open spec fn spec_llen(ds: DS, db: int, k: Seq<u8>) -> (RV, DS) {
    match ds_get(ds, db, k) { None => (RV::Int(0), ds), Some(DV::List(o)) => (RV::Int(o.len() as int), ds), Some(_) => (RV::WrongType, ds) }
}
pub open spec fn spec_lindex(ds: DS, db: int, k: Seq<u8>, index: int) -> (RV, DS) {
    match ds_get(ds, db, k) {
        None => (RV::Bulk(None), ds),
        Some(DV::List(o)) => (match spec_index(o.len() as int, index) { Some(i) => RV::Bulk(Some(o[i]@)), None => RV::Bulk(None) }, ds),
        Some(_) => (RV::WrongType, ds),
    }
}
pub open spec fn spec_lset(ds: DS, db: int, k: Seq<u8>, index: int, v: Vec<u8>) -> (RV, DS) {
    match ds_get(ds, db, k) {
        None => (RV::OtherErr, ds),
        Some(DV::List(o)) => match spec_index(o.len() as int, index) { Some(i) => (RV::Okay, ds.insert((db, k), DV::List(o.update(i, v)))), None => (RV::OtherErr, ds) },
        Some(_) => (RV::WrongType, ds),
    }
}
pub open spec fn spec_range_seq<T>(o: Seq<T>, start: int, stop: int) -> Seq<T> {
    match spec_range(o.len() as int, start, stop) { Some((a, b)) => o.subrange(a, b + 1), None => Seq::<T>::empty() }
}
pub open spec fn spec_lrange(ds: DS, db: int, k: Seq<u8>, start: int, stop: int) -> (RV, DS) {
    match ds_get(ds, db, k) {
        None => (RV::Arr(Seq::<Seq<u8>>::empty()), ds),
        Some(DV::List(o)) => (RV::Arr(spec_range_seq(o, start, stop).map_values(|x: Vec<u8>| x@)), ds),
        Some(_) => (RV::WrongType, ds),
    }
}
pub open spec fn spec_ltrim(ds: DS, db: int, k: Seq<u8>, start: int, stop: int) -> (RV, DS) {
    match ds_get(ds, db, k) {
        None => (RV::Okay, ds),
        Some(DV::List(o)) => { let r = spec_range_seq(o, start, stop); (RV::Okay, if r.len() == 0 { ds.remove((db, k)) } else { ds.insert((db, k), DV::List(r)) }) },
        Some(_) => (RV::WrongType, ds),
    }
}
}
verus! {
// ---- sets
pub open spec fn vecs_set(e: Seq<Vec<u8>>) -> Set<Vec<u8>> { e.to_set() }
pub open spec fn spec_sadd(ds: DS, db: int, k: Seq<u8>, e: Seq<Vec<u8>>) -> (RV, DS) {
    match ds_get(ds, db, k) {
        None => (RV::Int(vecs_set(e).len() as int), ds.insert((db, k), DV::Set(vecs_set(e)))),
        Some(DV::Set(m)) => (RV::Int((m.union(vecs_set(e)).len() - m.len()) as int), ds.insert((db, k), DV::Set(m.union(vecs_set(e))))),
        Some(_) => (RV::WrongType, ds),
    }
}
pub open spec fn spec_sismember(ds: DS, db: int, k: Seq<u8>, m: Seq<u8>) -> (RV, DS) {
    match ds_get(ds, db, k) {
        None => (RV::Int(0), ds),
        Some(DV::Set(s)) => (RV::Int(if s.contains(key_of(m)) { 1int } else { 0int }), ds),
        Some(_) => (RV::WrongType, ds),
    }
}
pub open spec fn spec_scard(ds: DS, db: int, k: Seq<u8>) -> (RV, DS) {
    match ds_get(ds, db, k) { None => (RV::Int(0), ds), Some(DV::Set(s)) => (RV::Int(s.len() as int), ds), Some(_) => (RV::WrongType, ds) }
}
pub open spec fn spec_smembers(ds: DS, db: int, k: Seq<u8>) -> (RV, DS) {
    match ds_get(ds, db, k) { None => (RV::ArrSet(Set::<Vec<u8>>::empty()), ds), Some(DV::Set(s)) => (RV::ArrSet(s), ds), Some(_) => (RV::WrongType, ds) }
}
// ---- hashes
pub open spec fn spec_hget(ds: DS, db: int, k: Seq<u8>, f: Seq<u8>) -> (RV, DS) {
    match ds_get(ds, db, k) {
        None => (RV::Bulk(None), ds),
        Some(DV::Hash(h)) => (if h.contains_key(key_of(f)) { RV::Bulk(Some(h[key_of(f)]@)) } else { RV::Bulk(None) }, ds),
        Some(_) => (RV::WrongType, ds),
    }
}
pub open spec fn spec_hlen(ds: DS, db: int, k: Seq<u8>) -> (RV, DS) {
    match ds_get(ds, db, k) { None => (RV::Int(0), ds), Some(DV::Hash(h)) => (RV::Int(h.dom().len() as int), ds), Some(_) => (RV::WrongType, ds) }
}
pub open spec fn spec_hexists(ds: DS, db: int, k: Seq<u8>, f: Seq<u8>) -> (RV, DS) {
    match ds_get(ds, db, k) {
        None => (RV::Int(0), ds),
        Some(DV::Hash(h)) => (RV::Int(if h.contains_key(key_of(f)) { 1int } else { 0int }), ds),
        Some(_) => (RV::WrongType, ds),
    }
}
pub open spec fn spec_hincrby(ds: DS, db: int, k: Seq<u8>, f: Vec<u8>, inc: i64) -> (RV, DS) {
    match ds_get(ds, db, k) {
        None => (RV::Int(inc as int), ds.insert((db, k), DV::Hash(Map::<Vec<u8>, Vec<u8>>::empty().insert(f, key_of(i64_str(inc)))))),
        Some(DV::Hash(h)) => if !h.contains_key(f) { (RV::Int(inc as int), ds.insert((db, k), DV::Hash(h.insert(f, key_of(i64_str(inc)))))) } else {
            match spec_parse_i64(h[f]@) {
                None => (RV::OtherErr, ds),
                Some(cur) => if i64::MIN <= cur + inc <= i64::MAX { (RV::Int(cur + inc), ds.insert((db, k), DV::Hash(h.insert(f, key_of(i64_str((cur + inc) as i64)))))) } else { (RV::OtherErr, ds) },
            } },
        Some(_) => (RV::WrongType, ds),
    }
}
// ---- SET with options (shared by the server.rs handler unit and the executor arm unit)
pub type TTL = Map<(int, Seq<u8>), int>;
/// options accumulated so far: requested TTL in ns, NX, XX
pub struct SetOpts { pub exp: Option<int>, pub nx: bool, pub xx: bool }
/// what SET does once its options are known
pub open spec fn spec_set(ds: DS, ttl: TTL, db: int, k: Seq<u8>, v: Seq<u8>, o: SetOpts) -> (RV, DS, TTL) {
    let stored = (RV::Okay, ds.insert((db, k), DV::Str(v)), match o.exp { Some(n) => ttl.insert((db, k), n), None => ttl.remove((db, k)) });
    if o.nx { if ds.contains_key((db, k)) { (RV::Bulk(None), ds, ttl) } else { stored } }
    else if o.xx { if ds.contains_key((db, k)) { stored } else { (RV::Bulk(None), ds, ttl) } }
    else { stored }
}
}
