// ---- ORACLE: Redis string command semantics as spec functions (transcribed from the Redis command reference)
verus! {
/// GETRANGE key start end: negative offsets count from the end (-1 = last byte); out-of-range offsets are
/// clamped to the string; the result is empty when the normalised start is past the normalised end or the
/// string is empty.
pub open spec fn spec_getrange(s: Seq<u8>, start: int, end: int) -> Seq<u8> {
    let len = s.len() as int;
    let st0 = if start < 0 { len + start } else { start };
    let en0 = if end < 0 { len + end } else { end };
    let st = if st0 < 0 { 0 } else { st0 };
    let en1 = if en0 < 0 { 0 } else { en0 };
    let en = if en1 >= len { len - 1 } else { en1 };
    if len == 0 || st > en || st >= len { Seq::<u8>::empty() } else { s.subrange(st, en + 1) }
}

proof fn spec_getrange_examples()
{
    let s = seq![b'a', b'b', b'c'];
    assert(spec_getrange(s, 0, -1) =~= s);
    assert(spec_getrange(s, 0, 0) =~= seq![b'a']);
    assert(spec_getrange(s, -2, -1) =~= seq![b'b', b'c']);
    assert(spec_getrange(s, 5, 10) =~= Seq::<u8>::empty());
    assert(spec_getrange(s, 2, 1) =~= Seq::<u8>::empty());
    assert(spec_getrange(s, -100, 100) =~= s);
    assert(spec_getrange(Seq::<u8>::empty(), 0, -1) =~= Seq::<u8>::empty());
    // Redis: GETRANGE "abc" 0 -10 -> "a" (end clamps to 0 after going negative)
    assert(spec_getrange(s, 0, -10) =~= seq![b'a']);
}
}
verus! {
/// SETRANGE key offset value: the string is zero-padded up to `offset`, then `value` overwrites / extends it
pub open spec fn spec_setrange(s: Seq<u8>, offset: int, value: Seq<u8>) -> Seq<u8> {
    let newlen = if offset + value.len() > s.len() { offset + value.len() } else { s.len() as int };
    Seq::new(newlen as nat, |i: int|
        if offset <= i < offset + value.len() { value[i - offset] }
        else if i < s.len() { s[i] }
        else { 0u8 })
}
proof fn spec_setrange_examples() {
    let s = seq![72u8, 105u8];          // "Hi"
    assert(spec_setrange(s, 1, seq![111u8]) =~= seq![72u8, 111u8]);                       // in place
    assert(spec_setrange(s, 4, seq![33u8]) =~= seq![72u8, 105u8, 0u8, 0u8, 33u8]);        // zero padding
    assert(spec_setrange(Seq::<u8>::empty(), 2, seq![65u8]) =~= seq![0u8, 0u8, 65u8]);    // missing key
    assert(spec_setrange(s, 1, seq![97u8, 98u8]) =~= seq![72u8, 97u8, 98u8]);             // overlap + grow
}
}
