// ---- shard-level abstractions used by C01/C02/C03/C08 contracts
verus! {
spec fn expired(sv: StoredValue) -> bool {
    sv.metadata.expires_at matches Some(d) && spec_now() > iv(d)
}
/// C02 representation invariant: the sweeper's deadline index names exactly the keys that carry a deadline, with that deadline
spec fn index_ok(s: DatabaseShard) -> bool {
    &&& forall|k: Vec<u8>| #[trigger] s.expiring_keys@.contains_key(k) ==> s.data@.contains_key(k) && s.data@[k].metadata.expires_at == Some(s.expiring_keys@[k])
    &&& forall|k: Vec<u8>| #[trigger] s.data@.contains_key(k) && s.data@[k].metadata.expires_at is Some ==> s.expiring_keys@.contains_key(k)
}
spec fn marks(s: DatabaseShard) -> Set<Seq<u8>> { s.watch_tracker.marks@ }
spec fn key_state(s: DatabaseShard, k: Vec<u8>) -> Option<StoredValue> {
    if s.data@.contains_key(k) { Some(s.data@[k]) } else { None }
}
/// frame + WATCH contract shared by every single-key operation on a shard:
///  * nothing but `key` changes in the key space or in the deadline index,
///  * no key other than `key` gets marked (no false aborts), and if `key`'s stored state changed it IS marked (C08),
///  * the deadline-index invariant is preserved (C02).
spec fn step_ok(o: DatabaseShard, f: DatabaseShard, key: Vec<u8>) -> bool {
    &&& f.data@.remove(key) =~= o.data@.remove(key)
    &&& f.expiring_keys@.remove(key) =~= o.expiring_keys@.remove(key)
    &&& marks(f).subset_of(marks(o).insert(key@))
    &&& marks(o).subset_of(marks(f))
    &&& (key_state(f, key) != key_state(o, key) ==> marks(f).contains(key@))
    &&& (index_ok(o) ==> index_ok(f))
}
spec fn unchanged(o: DatabaseShard, f: DatabaseShard) -> bool {
    f.data@ =~= o.data@ && f.expiring_keys@ =~= o.expiring_keys@ && marks(f) =~= marks(o)
}
}
