// ---- shard-level abstractions used by C01/C02/C03/C08 contracts
verus! {
pub open spec fn expired(sv: StoredValue) -> bool {
    sv.metadata.expires_at matches Some(d) && spec_now() > iv(d)
}
/// spec view of a shard: key space, deadline index, WATCH log
pub struct SV { pub data: Map<Vec<u8>, StoredValue>, pub exp: Map<Vec<u8>, Instant>, pub marks: Set<Seq<u8>> }
#[verifier::inline]
spec fn sv(s: DatabaseShard) -> SV { SV { data: s.data@, exp: s.expiring_keys@, marks: s.watch_tracker.marks@ } }
/// the shard AS AN OPERATION ON `k` SEES IT (lazy expiry, C02): if k's deadline has passed it is gone from the key space and
/// from the index and has been marked for WATCH — "from the deadline on it is absent to every command"
spec fn was_expired(s: DatabaseShard, k: Vec<u8>) -> bool { s.data@.contains_key(k) && expired(s.data@[k]) }
#[verifier::inline]
spec fn eff(s: DatabaseShard, k: Vec<u8>) -> SV {
    SV {
        data: if was_expired(s, k) { s.data@.remove(k) } else { s.data@ },
        exp: if was_expired(s, k) { s.expiring_keys@.remove(k) } else { s.expiring_keys@ },
        marks: if was_expired(s, k) { s.watch_tracker.marks@.insert(k@) } else { s.watch_tracker.marks@ },
    }
}
/// C02 representation invariant: the sweeper's deadline index names exactly the keys that carry a deadline, with that deadline
spec fn index_ok_m(data: Map<Vec<u8>, StoredValue>, exp: Map<Vec<u8>, Instant>) -> bool {
    &&& forall|k: Vec<u8>| #[trigger] exp.contains_key(k) ==> data.contains_key(k) && data[k].metadata.expires_at == Some(exp[k])
    &&& forall|k: Vec<u8>| #[trigger] data.contains_key(k) && data[k].metadata.expires_at is Some ==> exp.contains_key(k)
}
#[verifier::inline]
spec fn index_ok(s: SV) -> bool { index_ok_m(s.data, s.exp) }
proof fn lemma_eff_keeps_index(s: DatabaseShard, k: Vec<u8>)
    ensures index_ok(sv(s)) ==> index_ok(eff(s, k)), eff(s, k).data.contains_key(k) ==> !expired(eff(s, k).data[k]),
{
}
#[verifier::inline]
spec fn marks(s: SV) -> Set<Seq<u8>> { s.marks }
/// abstract value of a stored object (containers by their mathematical view, so that "unchanged" does not depend on
/// the identity of std container objects)
pub enum ValueView {
    Str(Seq<u8>), List(Seq<Vec<u8>>), Set(Set<Vec<u8>>), Hash(Map<Vec<u8>, Vec<u8>>), ZSet(Seq<(Vec<u8>, f64)>), Stream(Stream),
}
spec fn vview(v: Value) -> ValueView {
    match v {
        Value::String(b) => ValueView::Str(b@),
        Value::List(l) => ValueView::List(l@),
        Value::Set(m) => ValueView::Set(m@),
        Value::Hash(h) => ValueView::Hash(h@),
        Value::SortedSet(z) => ValueView::ZSet(z.view()),
        Value::Stream(st) => ValueView::Stream(st),
    }
}
/// observable state of a key: abstract value and deadline
spec fn key_state_m(data: Map<Vec<u8>, StoredValue>, k: Vec<u8>) -> Option<(ValueView, Option<Instant>)> {
    if data.contains_key(k) { Some((vview(data[k].value), data[k].metadata.expires_at)) } else { None }
}
#[verifier::inline]
spec fn key_state(s: SV, k: Vec<u8>) -> Option<(ValueView, Option<Instant>)> { key_state_m(s.data, k) }
/// frame + WATCH contract shared by every single-key operation on a shard (o = the state the operation sees, f = after):
///  * nothing but `key` changes in the key space or in the deadline index,
///  * no key other than `key` gets marked (no false aborts), and if `key`'s observable state changed it IS marked (C08),
///  * the deadline-index invariant is preserved (C02).
#[verifier::inline]
spec fn step_ok(o: SV, f: SV, key: Vec<u8>) -> bool {
    &&& f.data.remove(key) =~= o.data.remove(key)
    &&& f.exp.remove(key) =~= o.exp.remove(key)
    &&& marks(f).subset_of(marks(o).insert(key@))
    &&& marks(o).subset_of(marks(f))
    &&& (key_state(f, key) != key_state(o, key) ==> marks(f).contains(key@))
    &&& (index_ok(o) ==> index_ok(f))
}
/// variant of step_ok for objects mutated through SHARED references (sorted sets, streams): their member state is not
/// part of the shard's spec state, so "changed ==> marked" is stated per operation instead; frame, no-foreign-marks and
/// the deadline-index invariant are as in step_ok
#[verifier::inline]
spec fn step_ok_shared(o: SV, f: SV, key: Vec<u8>) -> bool {
    &&& f.data.remove(key) =~= o.data.remove(key)
    &&& f.exp.remove(key) =~= o.exp.remove(key)
    &&& marks(f).subset_of(marks(o).insert(key@))
    &&& marks(o).subset_of(marks(f))
    &&& (o.data.contains_key(key) != f.data.contains_key(key) ==> marks(f).contains(key@))
    &&& (index_ok(o) ==> index_ok(f))
}
/// C03 data invariant: "a collection that becomes empty ceases to exist as a key" — no empty list/set/hash is stored
spec fn coll_ok_m(data: Map<Vec<u8>, StoredValue>) -> bool {
    forall|k: Vec<u8>| #[trigger] data.contains_key(k) ==> (match data[k].value {
        Value::List(l) => l@.len() > 0,
        Value::Set(m) => m@.len() > 0,
        Value::Hash(h) => h@.len() > 0,
        _ => true,
    })
}
#[verifier::inline]
spec fn coll_ok(s: SV) -> bool { coll_ok_m(s.data) }
#[verifier::inline]
spec fn unchanged(o: SV, f: SV) -> bool {
    f.data =~= o.data && f.exp =~= o.exp && marks(f) =~= marks(o)
}
}
