// ---- shard-level abstractions used by C01/C02/C03/C08 contracts
verus! {
spec fn expired(sv: StoredValue) -> bool {
    sv.metadata.expires_at matches Some(d) && spec_now() > iv(d)
}
/// C02 representation invariant: the sweeper's deadline index names exactly the keys that carry a deadline, with that deadline
spec fn index_ok(s: DatabaseShard) -> bool {
    &&& forall|k: Vec<u8>| #[trigger] s.expiring_keys@.contains_key(k) ==> s.data@.contains_key(k) && s.data@[k].metadata.expires_at == Some(s.expiring_keys@[k])
    &&& forall|k: Vec<u8>| #[trigger] s.data@.contains_key(k) && s.data@[k].metadata.expires_at is Some ==> s.expiring_keys@.contains_key(k)
}
spec fn marks(s: DatabaseShard) -> Set<Seq<u8>> { s.watch_tracker.marks@ }
/// abstract value of a stored object (containers by their mathematical view, so that "unchanged" does not depend on
/// the identity of std container objects)
pub enum ValueView {
    Str(Seq<u8>), List(Seq<Vec<u8>>), Set(Set<Vec<u8>>), Hash(Map<Vec<u8>, Vec<u8>>), ZSet(Seq<(Vec<u8>, f64)>), Stream(Stream),
}
spec fn vview(v: Value) -> ValueView {
    match v {
        Value::String(b) => ValueView::Str(b@),
        Value::List(l) => ValueView::List(l@),
        Value::Set(m) => ValueView::Set(m@),
        Value::Hash(h) => ValueView::Hash(h@),
        Value::SortedSet(z) => ValueView::ZSet(z.view()),
        Value::Stream(st) => ValueView::Stream(st),
    }
}
/// observable state of a key: abstract value and deadline
spec fn key_state(s: DatabaseShard, k: Vec<u8>) -> Option<(ValueView, Option<Instant>)> {
    if s.data@.contains_key(k) { Some((vview(s.data@[k].value), s.data@[k].metadata.expires_at)) } else { None }
}
/// frame + WATCH contract shared by every single-key operation on a shard:
///  * nothing but `key` changes in the key space or in the deadline index,
///  * no key other than `key` gets marked (no false aborts), and if `key`'s stored state changed it IS marked (C08),
///  * the deadline-index invariant is preserved (C02).
spec fn step_ok(o: DatabaseShard, f: DatabaseShard, key: Vec<u8>) -> bool {
    &&& f.data@.remove(key) =~= o.data@.remove(key)
    &&& f.expiring_keys@.remove(key) =~= o.expiring_keys@.remove(key)
    &&& marks(f).subset_of(marks(o).insert(key@))
    &&& marks(o).subset_of(marks(f))
    &&& (key_state(f, key) != key_state(o, key) ==> marks(f).contains(key@))
    &&& (index_ok(o) ==> index_ok(f))
}
/// variant of step_ok for objects mutated through SHARED references (sorted sets, streams): their member state is not
/// part of the shard's spec state, so "changed ==> marked" is stated per operation instead; frame, no-foreign-marks and
/// the deadline-index invariant are as in step_ok
spec fn step_ok_shared(o: DatabaseShard, f: DatabaseShard, key: Vec<u8>) -> bool {
    &&& f.data@.remove(key) =~= o.data@.remove(key)
    &&& f.expiring_keys@.remove(key) =~= o.expiring_keys@.remove(key)
    &&& marks(f).subset_of(marks(o).insert(key@))
    &&& marks(o).subset_of(marks(f))
    &&& (o.data@.contains_key(key) != f.data@.contains_key(key) ==> marks(f).contains(key@))
    &&& (index_ok(o) ==> index_ok(f))
}
/// C03 data invariant: "a collection that becomes empty ceases to exist as a key" — no empty list/set/hash is stored
spec fn coll_ok(s: DatabaseShard) -> bool {
    forall|k: Vec<u8>| #[trigger] s.data@.contains_key(k) ==> (match s.data@[k].value {
        Value::List(l) => l@.len() > 0,
        Value::Set(m) => m@.len() > 0,
        Value::Hash(h) => h@.len() > 0,
        _ => true,
    })
}
spec fn unchanged(o: DatabaseShard, f: DatabaseShard) -> bool {
    f.data@ =~= o.data@ && f.expiring_keys@ =~= o.expiring_keys@ && marks(f) =~= marks(o)
}
}
