// ---- ORACLE: RESP wire grammar (RESP2 spec + RESP3 additions), as spec functions over byte sequences.
verus! {
pub open spec fn is_crlf_at(d: Seq<u8>, i: int) -> bool { 0 <= i && i + 1 < d.len() && d[i] == 13u8 && d[i + 1] == 10u8 }

/// first position >= from where CRLF starts, if any (searching upward)
pub open spec fn first_crlf(d: Seq<u8>, from: int) -> Option<int>
    decreases d.len() - from
{
    if from < 0 || from + 1 >= d.len() { None }
    else if is_crlf_at(d, from) { Some(from) }
    else { first_crlf(d, from + 1) }
}

/// a CRLF-terminated line after `skip` prefix bytes: Some((payload, bytes consumed including CRLF)) or None = need more data
pub open spec fn spec_line(d: Seq<u8>, skip: int) -> Option<(Seq<u8>, int)> {
    match first_crlf(d, skip) {
        Some(i) => Some((d.subrange(skip, i), i + 2)),
        None => None,
    }
}

pub enum BulkSpec { Incomplete, Bad, Null(int), Data(Seq<u8>, int) }

/// `$<len>\r\n<len bytes>\r\n`, `$-1\r\n` = null; any other negative or non-numeric length is a protocol error
pub open spec fn spec_bulk(d: Seq<u8>) -> BulkSpec {
    match spec_line(d, 1) {
        None => BulkSpec::Incomplete,
        Some((line, h)) => match spec_parse_i64(line) {
            None => BulkSpec::Bad,
            Some(n) =>
                if n == -1 { BulkSpec::Null(h) }
                else if n < 0 { BulkSpec::Bad }
                else if d.len() < h + n + 2 { BulkSpec::Incomplete }
                else if !is_crlf_at(d, h + n) { BulkSpec::Bad }
                else { BulkSpec::Data(d.subrange(h, h + n), h + n + 2) },
        },
    }
}

// ---- chunking lemmas over the oracle: a complete result or an error never changes when more bytes arrive
pub proof fn lemma_first_crlf_props(d: Seq<u8>, from: int)
    requires 0 <= from,
    ensures match first_crlf(d, from) {
        Some(i) => from <= i && is_crlf_at(d, i) && forall|j: int| from <= j < i ==> !is_crlf_at(d, j),
        None => forall|j: int| from <= j ==> !is_crlf_at(d, j),
    }
    decreases d.len() - from
{
    if from + 1 >= d.len() { } else if is_crlf_at(d, from) { } else { lemma_first_crlf_props(d, from + 1); }
}

pub proof fn lemma_first_crlf_unique(d: Seq<u8>, from: int, i: int)
    requires 0 <= from <= i, is_crlf_at(d, i), forall|j: int| from <= j < i ==> !is_crlf_at(d, j),
    ensures first_crlf(d, from) == Some(i),
    decreases i - from
{
    if from == i { } else { lemma_first_crlf_unique(d, from + 1, i); }
}

pub proof fn lemma_line_extend(d: Seq<u8>, e: Seq<u8>, skip: int)
    requires 0 <= skip, spec_line(d, skip) is Some,
    ensures spec_line(d + e, skip) == spec_line(d, skip),
{
    lemma_first_crlf_props(d, skip);
    let i = first_crlf(d, skip)->Some_0;
    assert(is_crlf_at(d + e, i));
    assert forall|j: int| skip <= j < i implies !is_crlf_at(d + e, j) by { assert(!is_crlf_at(d, j)); assert(j + 1 < d.len()); assert((d + e)[j] == d[j]); assert((d + e)[j + 1] == d[j + 1]); }
    lemma_first_crlf_unique(d + e, skip, i);
    assert((d + e).subrange(skip, i) =~= d.subrange(skip, i));
}

pub proof fn lemma_bulk_extend(d: Seq<u8>, e: Seq<u8>)
    ensures
        spec_bulk(d) is Data ==> spec_bulk(d + e) == spec_bulk(d),
        spec_bulk(d) is Null ==> spec_bulk(d + e) == spec_bulk(d),
        spec_bulk(d) is Bad ==> spec_bulk(d + e) is Bad,
{
    if spec_line(d, 1) is Some {
        lemma_line_extend(d, e, 1);
        lemma_first_crlf_props(d, 1);
        let (line, h) = spec_line(d, 1)->Some_0;
        if let Some(n) = spec_parse_i64(line) {
            if n >= 0 && d.len() >= h + n + 2 {
                assert((d + e)[h + n] == d[h + n]);
                assert((d + e)[h + n + 1] == d[h + n + 1]);
                assert((d + e).subrange(h, h + n) =~= d.subrange(h, h + n));
            }
        }
    }
}
}
