// ---- ORACLE: RESP wire grammar (RESP2 spec + RESP3 additions), as spec functions over byte sequences.
verus! {
pub open spec fn is_crlf_at(d: Seq<u8>, i: int) -> bool { 0 <= i && i + 1 < d.len() && d[i] == 13u8 && d[i + 1] == 10u8 }

/// first position >= from where CRLF starts, if any (searching upward)
pub open spec fn first_crlf(d: Seq<u8>, from: int) -> Option<int>
    decreases d.len() - from
{
    if from < 0 || from + 1 >= d.len() { None }
    else if is_crlf_at(d, from) { Some(from) }
    else { first_crlf(d, from + 1) }
}

/// a CRLF-terminated line after `skip` prefix bytes: Some((payload, bytes consumed including CRLF)) or None = need more data
pub open spec fn spec_line(d: Seq<u8>, skip: int) -> Option<(Seq<u8>, int)> {
    match first_crlf(d, skip) {
        Some(i) => Some((d.subrange(skip, i), i + 2)),
        None => None,
    }
}

pub enum BulkSpec { Incomplete, Bad, Null(int), Data(Seq<u8>, int) }

/// `$<len>\r\n<len bytes>\r\n`, `$-1\r\n` = null; any other negative or non-numeric length is a protocol error
pub open spec fn spec_bulk(d: Seq<u8>) -> BulkSpec {
    match spec_line(d, 1) {
        None => BulkSpec::Incomplete,
        Some((line, h)) => match spec_parse_i64(line) {
            None => BulkSpec::Bad,
            Some(n) =>
                if n == -1 { BulkSpec::Null(h) }
                else if n < 0 { BulkSpec::Bad }
                else if d.len() < h + n + 2 { BulkSpec::Incomplete }
                else if !is_crlf_at(d, h + n) { BulkSpec::Bad }
                else { BulkSpec::Data(d.subrange(h, h + n), h + n + 2) },
        },
    }
}

// ---- chunking lemmas over the oracle: a complete result or an error never changes when more bytes arrive
pub proof fn lemma_first_crlf_props(d: Seq<u8>, from: int)
    requires 0 <= from,
    ensures match first_crlf(d, from) {
        Some(i) => from <= i && is_crlf_at(d, i) && forall|j: int| from <= j < i ==> !is_crlf_at(d, j),
        None => forall|j: int| from <= j ==> !is_crlf_at(d, j),
    }
    decreases d.len() - from
{
    if from + 1 >= d.len() { } else if is_crlf_at(d, from) { } else { lemma_first_crlf_props(d, from + 1); }
}

pub proof fn lemma_first_crlf_unique(d: Seq<u8>, from: int, i: int)
    requires 0 <= from <= i, is_crlf_at(d, i), forall|j: int| from <= j < i ==> !is_crlf_at(d, j),
    ensures first_crlf(d, from) == Some(i),
    decreases i - from
{
    if from == i { } else { lemma_first_crlf_unique(d, from + 1, i); }
}

pub proof fn lemma_line_extend(d: Seq<u8>, e: Seq<u8>, skip: int)
    requires 0 <= skip, spec_line(d, skip) is Some,
    ensures spec_line(d + e, skip) == spec_line(d, skip),
{
    lemma_first_crlf_props(d, skip);
    let i = first_crlf(d, skip)->Some_0;
    assert(is_crlf_at(d + e, i));
    assert forall|j: int| skip <= j < i implies !is_crlf_at(d + e, j) by { assert(!is_crlf_at(d, j)); assert(j + 1 < d.len()); assert((d + e)[j] == d[j]); assert((d + e)[j + 1] == d[j + 1]); }
    lemma_first_crlf_unique(d + e, skip, i);
    assert((d + e).subrange(skip, i) =~= d.subrange(skip, i));
}

pub proof fn lemma_bulk_extend(d: Seq<u8>, e: Seq<u8>)
    ensures
        spec_bulk(d) is Data ==> spec_bulk(d + e) == spec_bulk(d),
        spec_bulk(d) is Null ==> spec_bulk(d + e) == spec_bulk(d),
        spec_bulk(d) is Bad ==> spec_bulk(d + e) is Bad,
{
    if spec_line(d, 1) is Some {
        lemma_line_extend(d, e, 1);
        lemma_first_crlf_props(d, 1);
        let (line, h) = spec_line(d, 1)->Some_0;
        if let Some(n) = spec_parse_i64(line) {
            if n >= 0 && d.len() >= h + n + 2 {
                assert((d + e)[h + n] == d[h + n]);
                assert((d + e)[h + n + 1] == d[h + n + 1]);
                assert((d + e).subrange(h, h + n) =~= d.subrange(h, h + n));
            }
        }
    }
}
}
verus! {
// ---- full frame grammar (RESP2 + the RESP3 types the parser accepts)
pub enum FV {
    Simple(Seq<u8>), Error(Seq<u8>), Int(i64), Bulk(Option<Seq<u8>>), Arr(Option<Seq<FV>>), Null, Bool(bool), Double(f64),
    Map(Seq<(FV, FV)>), Set(Seq<FV>),
}
pub enum PR { Incomplete, Bad, Done(FV, int) }
pub enum ER { Incomplete, Bad, Done(Seq<FV>, int) }
pub uninterp spec fn spec_parse_f64(b: Seq<u8>) -> Option<f64>;
pub open spec fn spec_parse_usize(b: Seq<u8>) -> Option<usize> { if utf8_ok(b) { parse_spec::<usize>(b) } else { None } }

/// k frames starting at byte `pos` of d, appended to `acc`; Done(all frames, end position)
pub open spec fn spec_elems(d: Seq<u8>, pos: int, k: int, acc: Seq<FV>) -> ER
    decreases d.len() - pos, 2int, k
{
    if k <= 0 { ER::Done(acc, pos) }
    else if pos < 0 || pos > d.len() { ER::Bad }
    else {
        match spec_frame(d.subrange(pos, d.len() as int)) {
            PR::Incomplete => ER::Incomplete,
            PR::Bad => ER::Bad,
            PR::Done(f, n) => if n <= 0 || pos + n > d.len() { ER::Bad } else { spec_elems(d, pos + n, k - 1, acc.push(f)) },
        }
    }
}
pub open spec fn spec_frame(d: Seq<u8>) -> PR
    decreases d.len(), 1int, 0int
{
    if d.len() == 0 { PR::Incomplete }
    else if d[0] == 43u8 { match spec_line(d, 1) { None => PR::Incomplete, Some((l, n)) => PR::Done(FV::Simple(l), n) } }
    else if d[0] == 45u8 { match spec_line(d, 1) { None => PR::Incomplete, Some((l, n)) => PR::Done(FV::Error(l), n) } }
    else if d[0] == 58u8 { match spec_line(d, 1) { None => PR::Incomplete, Some((l, n)) => match spec_parse_i64(l) { Some(v) => PR::Done(FV::Int(v), n), None => PR::Bad } } }
    else if d[0] == 36u8 { match spec_bulk(d) { BulkSpec::Incomplete => PR::Incomplete, BulkSpec::Bad => PR::Bad, BulkSpec::Null(n) => PR::Done(FV::Bulk(None), n), BulkSpec::Data(p, n) => PR::Done(FV::Bulk(Some(p)), n) } }
    else if d[0] == 42u8 {
        match spec_line(d, 1) { None => PR::Incomplete, Some((l, h)) => match spec_parse_i64(l) {
            None => PR::Bad,
            Some(n) => if n == -1 { PR::Done(FV::Arr(None), h) } else if n < 0 { PR::Bad } else if h <= 0 || h > d.len() { PR::Bad } else {
                match spec_elems(d, h, n as int, Seq::<FV>::empty()) { ER::Incomplete => PR::Incomplete, ER::Bad => PR::Bad, ER::Done(fs, e) => PR::Done(FV::Arr(Some(fs)), e) } },
        } }
    }
    else if d[0] == 95u8 { if d.len() < 3 { PR::Incomplete } else if is_crlf_at(d, 1) { PR::Done(FV::Null, 3) } else { PR::Bad } }
    else if d[0] == 35u8 { if d.len() < 4 { PR::Incomplete } else if is_crlf_at(d, 2) && d[1] == 116u8 { PR::Done(FV::Bool(true), 4) } else if is_crlf_at(d, 2) && d[1] == 102u8 { PR::Done(FV::Bool(false), 4) } else { PR::Bad } }
    else if d[0] == 44u8 { match spec_line(d, 1) { None => PR::Incomplete, Some((l, n)) => match spec_parse_f64(l) { Some(v) => PR::Done(FV::Double(v), n), None => PR::Bad } } }
    else if d[0] == 126u8 {
        match spec_line(d, 1) { None => PR::Incomplete, Some((l, h)) => match spec_parse_usize(l) {
            None => PR::Bad,
            Some(n) => if h <= 0 || h > d.len() { PR::Bad } else { match spec_elems(d, h, n as int, Seq::<FV>::empty()) { ER::Incomplete => PR::Incomplete, ER::Bad => PR::Bad, ER::Done(fs, e) => PR::Done(FV::Set(fs), e) } },
        } }
    }
    else if d[0] == 37u8 {
        match spec_line(d, 1) { None => PR::Incomplete, Some((l, h)) => match spec_parse_usize(l) {
            None => PR::Bad,
            Some(n) => if h <= 0 || h > d.len() { PR::Bad } else { match spec_elems(d, h, 2 * (n as int), Seq::<FV>::empty()) { ER::Incomplete => PR::Incomplete, ER::Bad => PR::Bad, ER::Done(fs, e) => PR::Done(FV::Map(pairs_of(fs)), e) } },
        } }
    }
    else { PR::Bad }
}
pub open spec fn pairs_of(fs: Seq<FV>) -> Seq<(FV, FV)> { Seq::new(fs.len() / 2, |i: int| (fs[2 * i], fs[2 * i + 1])) }
}
verus! {
// ---- CHUNKING (C20): the grammar oracle is stable under extension of the input — a complete frame or a protocol error
// never changes when more bytes arrive; only "need more data" may turn into something else. Since the parser computes
// exactly this oracle (units of c20_parser), its answer for a byte stream does not depend on how the stream was cut.
pub proof fn lemma_line_bounds(d: Seq<u8>, skip: int)
    requires 0 <= skip,
    ensures spec_line(d, skip) matches Some((l, n)) ==> skip + 2 <= n <= d.len() && l == d.subrange(skip, n - 2),
{
    lemma_first_crlf_props(d, skip);
}

pub proof fn lemma_frame_extend(d: Seq<u8>, e: Seq<u8>)
    ensures
        spec_frame(d) matches PR::Done(f, n) ==> spec_frame(d + e) == spec_frame(d) && 0 < n <= d.len(),
        spec_frame(d) is Bad ==> spec_frame(d + e) is Bad,
    decreases d.len(), 1int, 0int
{
    if d.len() == 0 { return; }
    let x = d + e;
    assert(x[0] == d[0]);
    let t = d[0];
    if t == 43u8 || t == 45u8 || t == 58u8 || t == 44u8 {
        lemma_line_bounds(d, 1);
        if spec_line(d, 1) is Some { lemma_line_extend(d, e, 1); }
    } else if t == 36u8 {
        lemma_bulk_extend(d, e);
        lemma_line_bounds(d, 1);
        lemma_first_crlf_props(d, 1);
    } else if t == 42u8 || t == 126u8 || t == 37u8 {
        lemma_line_bounds(d, 1);
        if spec_line(d, 1) is Some {
            lemma_line_extend(d, e, 1);
            let (l, h) = spec_line(d, 1)->Some_0;
            if t == 42u8 {
                if let Some(n) = spec_parse_i64(l) { if n >= 0 { lemma_elems_extend(d, e, h, n as int, Seq::<FV>::empty()); } }
            } else if t == 126u8 {
                if let Some(n) = spec_parse_usize(l) { lemma_elems_extend(d, e, h, n as int, Seq::<FV>::empty()); }
            } else {
                if let Some(n) = spec_parse_usize(l) { lemma_elems_extend(d, e, h, 2 * (n as int), Seq::<FV>::empty()); }
            }
        }
    } else if t == 95u8 {
        if d.len() >= 3 { assert(x[1] == d[1] && x[2] == d[2]); }
    } else if t == 35u8 {
        if d.len() >= 4 { assert(x[1] == d[1] && x[2] == d[2] && x[3] == d[3]); }
    }
}

pub proof fn lemma_elems_extend(d: Seq<u8>, e: Seq<u8>, pos: int, k: int, acc: Seq<FV>)
    requires 0 < pos <= d.len(),
    ensures
        spec_elems(d, pos, k, acc) matches ER::Done(fs, end) ==> spec_elems(d + e, pos, k, acc) == spec_elems(d, pos, k, acc) && pos <= end <= d.len(),
        spec_elems(d, pos, k, acc) is Bad ==> spec_elems(d + e, pos, k, acc) is Bad,
    decreases d.len() - pos, 2int, k
{
    if k <= 0 { return; }
    let x = d + e;
    let sub = d.subrange(pos, d.len() as int);
    assert(x.subrange(pos, x.len() as int) =~= sub + e);
    lemma_frame_extend(sub, e);
    match spec_frame(sub) {
        PR::Done(f, n) => {
            if n > 0 && pos + n <= d.len() {
                if pos + n < d.len() || k - 1 <= 0 {
                    if pos + n <= d.len() && k - 1 > 0 { lemma_elems_extend(d, e, pos + n, k - 1, acc.push(f)); }
                } else {
                    // pos + n == d.len(): the remaining k-1 > 0 frames start at the end of d
                    lemma_elems_at_end(d, e, k - 1, acc.push(f));
                }
            }
        },
        _ => {},
    }
}

/// at the very end of d nothing can be complete: k > 0 more frames are "need more data", never Done or Bad
pub proof fn lemma_elems_at_end(d: Seq<u8>, e: Seq<u8>, k: int, acc: Seq<FV>)
    requires k > 0,
    ensures spec_elems(d, d.len() as int, k, acc) is Incomplete,
{
    let sub = d.subrange(d.len() as int, d.len() as int);
    assert(sub.len() == 0);
    assert(spec_frame(sub) is Incomplete);
}
}
