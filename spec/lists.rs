// ---- ORACLE: Redis list semantics
verus! {
/// LPUSH k e1 e2 .. en inserts the elements one after another at the head: the last argument ends up first
pub open spec fn rev_prefix<T>(e: Seq<T>, n: int) -> Seq<T> { Seq::new(n as nat, |i: int| e[n - 1 - i]) }
pub open spec fn spec_lpush<T>(old: Seq<T>, e: Seq<T>) -> Seq<T> { rev_prefix(e, e.len() as int) + old }
pub open spec fn spec_rpush<T>(old: Seq<T>, e: Seq<T>) -> Seq<T> { old + e }
proof fn spec_lists_examples() {
    let o = seq![1u8];
    assert(spec_lpush(o, seq![2u8, 3u8]) =~= seq![3u8, 2u8, 1u8]);    // LPUSH k 2 3 on [1] -> [3,2,1]
    assert(spec_rpush(o, seq![2u8, 3u8]) =~= seq![1u8, 2u8, 3u8]);
}
}
