// ---- ORACLE: Redis index-range semantics (LRANGE / LTRIM / ZRANGE / LINDEX / LSET), from the command reference:
// "offsets can be negative, -1 is the last element; out of range indexes do not produce an error: start past the
// end gives an empty list, stop past the end is treated as the last element".
verus! {
/// Some((a,b)) = the inclusive index range [a,b] with 0 <= a <= b < len that the command addresses; None = empty.
pub open spec fn spec_range(len: int, start: int, stop: int) -> Option<(int, int)> {
    let s0 = if start < 0 { len + start } else { start };
    let e0 = if stop < 0 { len + stop } else { stop };
    let s = if s0 < 0 { 0 } else { s0 };
    let e = if e0 >= len { len - 1 } else { e0 };
    if len <= 0 || s > e || s >= len || e < 0 { None } else { Some((s, e)) }
}
pub open spec fn in_spec_range(len: int, start: int, stop: int, i: int) -> bool {
    match spec_range(len, start, stop) { None => false, Some((a, b)) => a <= i <= b }
}
/// LINDEX / LSET index rule: Some(i) with 0 <= i < len, or None (out of range)
pub open spec fn spec_index(len: int, index: int) -> Option<int> {
    let i = if index < 0 { len + index } else { index };
    if 0 <= i < len { Some(i) } else { None }
}
proof fn spec_range_examples() {
    assert(spec_range(3, 0, -1) == Some((0int, 2int)));
    assert(spec_range(3, 0, -100) == None::<(int, int)>);   // LRANGE k 0 -100 on 3 elements: empty
    assert(spec_range(3, -100, 100) == Some((0int, 2int)));
    assert(spec_range(3, 5, 10) == None::<(int, int)>);
    assert(spec_range(3, 2, 1) == None::<(int, int)>);
    assert(spec_range(3, -2, -1) == Some((1int, 2int)));
    assert(spec_range(0, 0, -1) == None::<(int, int)>);
    assert(spec_index(3, -1) == Some(2int));
    assert(spec_index(3, -4) == None::<int>);
    assert(spec_index(3, 3) == None::<int>);
}
}
