#!/bin/sh
# Build the framework offline from files on disk only.
set -e
cd "$(dirname "$0")"
export CARGO_NET_OFFLINE=true
(cd tools/extract && cargo build --release --offline)
(cd tools/replay && cp /repo/Cargo.lock . && cargo build --offline) || echo "replay tool not built (replay of counterexamples unavailable)"
mkdir -p build evidence
