// Kani harnesses compiled INTO the real crate (child module of storage::stream, sees private items).
// Pulled in by the cfg(kani) hook line at the end of /repo/src/storage/stream.rs.
use super::*;
use std::sync::atomic::{AtomicU64, Ordering};

fn stub_millis() -> u64 { kani::any() }
fn stub_random_state() -> std::collections::hash_map::RandomState {
    // real body performs a getrandom syscall; the hasher keys are irrelevant to the checked properties
    unsafe { std::mem::transmute::<(u64, u64), std::collections::hash_map::RandomState>((0u64, 0u64)) }
}

/// COMPLETE (loop-free, full u64 domains): XADD * yields an ID strictly greater than the last one and the
/// duplicated atomics afterwards equal the returned ID. Atomics are executed sequentially, which is exactly the
/// situation in the real code: every caller holds Stream.data's mutex.
#[kani::proof]
#[kani::stub(get_cached_millis, stub_millis)]
fn gen_next_atomic() {
    let lm: u64 = kani::any();
    let ls: u64 = kani::any();
    let last_millis = AtomicU64::new(lm);
    let last_seq = AtomicU64::new(ls);
    let id = StreamId::generate_next_atomic(&last_millis, &last_seq);
    kani::cover!(id.millis() > lm, "clock ahead branch reached");
    kani::cover!(id.millis() == lm, "same-millisecond branch reached");
    assert!(id > StreamId::new(lm, ls), "generated ID is strictly greater than the previous top ID");
    assert!(last_millis.load(Ordering::Relaxed) == id.millis(), "last_id_millis agrees with the returned ID");
    assert!(last_seq.load(Ordering::Relaxed) == id.seq(), "last_id_seq agrees with the returned ID");
}

fn mk_data(n: usize) -> StreamData {
    let mut d = StreamData { entries: Vec::new(), last_id: StreamId::new(0, 0), memory_usage: 0 };
    let mut prev = StreamId::new(0, 0);
    let mut i = 0;
    while i < n {
        let id = StreamId { packed: kani::any() };
        kani::assume(id > prev);
        d.entries.push(StreamEntry { id, fields: HashMap::new() });
        d.last_id = id;
        prev = id;
        i += 1;
    }
    d
}

fn in_range(id: StreamId, s: StreamId, e: StreamId) -> bool { s <= id && id <= e }

/// BOUNDED (<= 3 entries, symbolic strictly increasing IDs, empty field maps; symbolic bounds, COUNT, direction):
/// XRANGE/XREVRANGE return exactly the entries within [start, end], in (reverse) ID order, truncated to COUNT.
#[kani::proof]
#[kani::unwind(5)]
#[kani::stub(std::collections::hash_map::RandomState::new, stub_random_state)]
fn stream_range_bounded() {
    let n: usize = kani::any();
    kani::assume(n <= 3);
    let d = mk_data(n);
    let s = StreamId { packed: kani::any() };
    let e = StreamId { packed: kani::any() };
    let reverse: bool = kani::any();
    let count: Option<usize> = if kani::any() { Some(kani::any::<u8>() as usize % 5) } else { None };
    let r = d.range(&s, &e, count, reverse);
    // reference: filter, order, truncate
    let mut expect: Vec<StreamId> = Vec::new();
    let mut i = 0;
    while i < n {
        let k = if reverse { n - 1 - i } else { i };
        let id = d.entries[k].id;
        if in_range(id, s, e) && count.map_or(true, |c| expect.len() < c) { expect.push(id); }
        i += 1;
    }
    kani::cover!(n == 3 && expect.len() == 2, "a two-entry window of three entries is reachable");
    assert!(r.entries.len() == expect.len(), "range returns exactly the entries within the bounds (count honoured)");
    let mut j = 0;
    while j < expect.len() {
        assert!(r.entries[j].id == expect[j], "range returns the entries in ID order (reverse for XREVRANGE)");
        j += 1;
    }
    std::mem::forget(d); std::mem::forget(r);
}
