// Kani harnesses compiled INTO the real crate as a child module of storage::skiplist (sees private items).
// Pulled in by the cfg(kani) hook line at the end of /repo/src/storage/skiplist.rs — inert in every normal build.
//
// BOUNDED: <= 3 nodes; tower heights are CONCRETE per harness instance (every assignment over {0,1} is a separate
// instance), members (u8, distinct) and scores (f64, NaN excluded — zadd/zincrby refuse it) are SYMBOLIC, so equal scores,
// +-0.0, +-inf and every relative order are covered. The node operations insert_new_node / remove_node_by_score are driven
// directly: the key_index HashMap is never executed (std hash containers are intractable for CBMC), so the agreement of
// key_index with the chain is NOT covered.
use super::*;

static mut LEVELS: [usize; 4] = [0; 4];
static mut NEXT_LEVEL: usize = 0;

fn stub_random_level<K, V>(_s: &SkipList<K, V>) -> usize
where K: Clone + Ord + Debug + std::hash::Hash + Eq, V: Clone + PartialOrd + Debug {
    unsafe { let l = LEVELS[NEXT_LEVEL]; NEXT_LEVEL += 1; l }
}
// ThreadRng is one Rc pointer; a dangling non-null value is never dereferenced because random_level is stubbed and the
// SkipList is mem::forget-ed (no Drop of the Rc)
fn stub_thread_rng() -> rand::rngs::ThreadRng { unsafe { std::mem::transmute::<usize, rand::rngs::ThreadRng>(16usize) } }
fn stub_random_state() -> std::collections::hash_map::RandomState {
    unsafe { std::mem::transmute::<(u64, u64), std::collections::hash_map::RandomState>((0u64, 0u64)) }
}

fn any_score() -> f64 { let s: f64 = kani::any(); kani::assume(!s.is_nan()); s }
fn lt(a: (f64, u8), b: (f64, u8)) -> bool { a.0 < b.0 || (a.0 == b.0 && a.1 < b.1) }

/// structural invariant of the anchor: level-0 chain strictly increasing in (score, member), length == |chain|,
/// every higher level a subsequence of level 0 that is itself increasing, `level` = highest non-empty level
fn check_structure(sl: &SkipList<u8, f64>, expect_len: usize) {
    // every walk in this checker is bounded by BOUND steps explicitly (CBMC would otherwise unwind pointer chases up to the
    // global bound that the `vec![None; 32]` fills force); reaching the bound is itself an assertion failure
    const BOUND: usize = 4;
    let inner = sl.inner.read().unwrap();
    assert!(inner.length == expect_len, "length equals the number of members");
    unsafe {
        // level 0
        let mut n = 0usize;
        let mut cur = (&(*inner.head).forward)[0];
        let mut prev: Option<(f64, u8)> = None;
        let mut steps = 0;
        while steps < BOUND {
            let p = match cur { Some(p) => p, None => break };
            let here = ((*p).value, (*p).key);
            if let Some(pv) = prev { assert!(lt(pv, here), "level-0 chain is strictly increasing in (score, member)"); }
            prev = Some(here);
            n += 1;
            cur = (&(*p).forward)[0];
            steps += 1;
        }
        assert!(cur.is_none(), "level-0 chain ends (no cycle, no extra nodes)");
        assert!(n == expect_len, "level-0 chain holds exactly the members");
        // level 1: increasing and every node reachable on level 0 (a subsequence)
        let mut cur1 = (&(*inner.head).forward)[1];
        let mut prev1: Option<(f64, u8)> = None;
        let mut steps1 = 0;
        while steps1 < BOUND {
            let p = match cur1 { Some(p) => p, None => break };
            let here = ((*p).value, (*p).key);
            if let Some(pv) = prev1 { assert!(lt(pv, here), "level-1 chain is increasing"); }
            prev1 = Some(here);
            let mut c0 = (&(*inner.head).forward)[0];
            let mut found = false;
            let mut s0 = 0;
            while s0 < BOUND {
                let q = match c0 { Some(q) => q, None => break };
                if q == p { found = true; }
                c0 = (&(*q).forward)[0];
                s0 += 1;
            }
            assert!(found, "a level-1 node is on the level-0 chain");
            cur1 = if (*p).forward.len() > 1 { (&(*p).forward)[1] } else { None };
            steps1 += 1;
        }
        assert!(cur1.is_none(), "level-1 chain ends");
        assert!(inner.level <= 1, "list level is bounded by the tallest tower");
        if inner.level == 1 { assert!((&(*inner.head).forward)[1].is_some(), "list level names a non-empty level"); }
    }
}

fn check_ranks(sl: &SkipList<u8, f64>, sorted: &[(f64, u8)]) {
    let n = sorted.len();
    let mut i = 0;
    while i < n {
        let got = sl.get_by_rank(i);
        assert!(matches!(got, Some((k, v)) if k == sorted[i].1 && v == sorted[i].0), "get_by_rank returns the i-th member in (score, member) order");
        i += 1;
    }
    assert!(sl.get_by_rank(n).is_none(), "get_by_rank past the end is None");
}
fn check_queries(sl: &SkipList<u8, f64>, sorted: &[(f64, u8)]) {
    let n = sorted.len();
    let (a, b): (usize, usize) = (kani::any(), kani::any());
    kani::assume(a <= 3 && b <= 3);
    let r = sl.range_by_rank(a, b);
    let e = if b >= n { n.wrapping_sub(1) } else { b };
    let expect_len = if n == 0 || a >= n || a > e { 0 } else { e - a + 1 };
    assert!(r.items.len() == expect_len, "range_by_rank returns exactly the ranks [start, min(end, len-1)]");
    let mut j = 0;
    while j < expect_len {
        assert!(r.items[j].0 == sorted[a + j].1 && r.items[j].1 == sorted[a + j].0, "range_by_rank returns members in rank order");
        j += 1;
    }
    let (lo, hi) = (any_score(), any_score());
    let rs = sl.range_by_score(lo, hi);
    let mut cnt = 0;
    let mut k = 0;
    while k < n { if sorted[k].0 >= lo && sorted[k].0 <= hi { cnt += 1; } k += 1; }
    assert!(rs.items.len() == cnt, "range_by_score returns exactly the members with min <= score <= max");
}

fn sort2(a: (f64, u8), b: (f64, u8)) -> [(f64, u8); 2] { if lt(a, b) { [a, b] } else { [b, a] } }

fn two_inserts_then_remove(h1: usize, h2: usize, remove_which: usize) {
    unsafe { LEVELS = [h1, h2, 0, 0]; NEXT_LEVEL = 0; }
    let sl: SkipList<u8, f64> = SkipList::new();
    let (m1, m2): (u8, u8) = (kani::any(), kani::any());
    kani::assume(m1 != m2);
    let (s1, s2) = (any_score(), any_score());
    {
        let mut g = sl.inner.write().unwrap();
        sl.insert_new_node(&mut g, m1, s1);
        sl.insert_new_node(&mut g, m2, s2);
    }
    kani::cover!(s1 == s2, "equal scores reachable");
    check_structure(&sl, 2);
    let both = sort2((s1, m1), (s2, m2));
    check_ranks(&sl, &both);
    let (rm, rs, keep) = if remove_which == 0 { (m1, s1, (s2, m2)) } else { (m2, s2, (s1, m1)) };
    {
        let mut g = sl.inner.write().unwrap();
        sl.remove_node_by_score(&mut g, &rm, &rs);
    }
    check_structure(&sl, 1);
    check_ranks(&sl, &[keep]);
    std::mem::forget(sl);
}

fn two_inserts_then_queries(h1: usize, h2: usize) {
    unsafe { LEVELS = [h1, h2, 0, 0]; NEXT_LEVEL = 0; }
    let sl: SkipList<u8, f64> = SkipList::new();
    let (m1, m2): (u8, u8) = (kani::any(), kani::any());
    kani::assume(m1 != m2);
    let (s1, s2) = (any_score(), any_score());
    {
        let mut g = sl.inner.write().unwrap();
        sl.insert_new_node(&mut g, m1, s1);
        sl.insert_new_node(&mut g, m2, s2);
    }
    let both = sort2((s1, m1), (s2, m2));
    check_queries(&sl, &both);
    std::mem::forget(sl);
}

macro_rules! inst {
    ($name:ident, $h1:expr, $h2:expr, $w:expr) => {
        #[kani::proof]
        #[kani::unwind(34)]
        #[kani::stub(rand::thread_rng, stub_thread_rng)]
        #[kani::stub(SkipList::random_level, stub_random_level)]
        #[kani::stub(std::collections::hash_map::RandomState::new, stub_random_state)]
        fn $name() { two_inserts_then_remove($h1, $h2, $w); }
    };
}
macro_rules! qinst {
    ($name:ident, $h1:expr, $h2:expr) => {
        #[kani::proof]
        #[kani::unwind(34)]
        #[kani::stub(rand::thread_rng, stub_thread_rng)]
        #[kani::stub(SkipList::random_level, stub_random_level)]
        #[kani::stub(std::collections::hash_map::RandomState::new, stub_random_state)]
        fn $name() { two_inserts_then_queries($h1, $h2); }
    };
}
qinst!(skiplist_2ins_queries_h00, 0, 0);
qinst!(skiplist_2ins_queries_h01, 0, 1);
qinst!(skiplist_2ins_queries_h10, 1, 0);
inst!(skiplist_2ins_rm_h00_first, 0, 0, 0);
inst!(skiplist_2ins_rm_h00_second, 0, 0, 1);
inst!(skiplist_2ins_rm_h01_first, 0, 1, 0);
inst!(skiplist_2ins_rm_h01_second, 0, 1, 1);
inst!(skiplist_2ins_rm_h10_first, 1, 0, 0);
inst!(skiplist_2ins_rm_h10_second, 1, 0, 1);
inst!(skiplist_2ins_rm_h11_first, 1, 1, 0);
inst!(skiplist_2ins_rm_h11_second, 1, 1, 1);

/// COMPLETE (loop-free, full f64 x f64 x u8 x u8 without NaN): the two comparators are a strict total order consistent with each other
#[kani::proof]
#[kani::stub(rand::thread_rng, stub_thread_rng)]
#[kani::stub(std::collections::hash_map::RandomState::new, stub_random_state)]
fn skiplist_comparators() {
    let sl: SkipList<u8, f64> = SkipList::new();
    let (a, b, c) = ((any_score(), kani::any::<u8>()), (any_score(), kani::any::<u8>()), (any_score(), kani::any::<u8>()));
    let ab = sl.compare_nodes(&a.0, &a.1, &b.0, &b.1);
    let ba = sl.compare_nodes(&b.0, &b.1, &a.0, &a.1);
    assert!(ab == ba.reverse(), "compare_nodes is antisymmetric");
    assert!((ab == Ordering::Equal) == (a.0 == b.0 && a.1 == b.1), "equal exactly on equal (score, member)");
    let bc = sl.compare_nodes(&b.0, &b.1, &c.0, &c.1);
    let ac = sl.compare_nodes(&a.0, &a.1, &c.0, &c.1);
    if ab == Ordering::Less && bc == Ordering::Less { assert!(ac == Ordering::Less, "compare_nodes is transitive"); }
    assert!(sl.compare_with_query(&a.0, &a.1, &b.0, &b.1) == ab, "compare_with_query agrees with compare_nodes");
    assert!((ab == Ordering::Less) == lt(a, b), "order is by score, then by member");
    std::mem::forget(sl);
}
