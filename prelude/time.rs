// ---- TRUSTED: std::time. Instant is an opaque point on an integer time line (`iv`). ASSUMPTION (stated in DESIGN §4):
// every clock read inside ONE storage operation returns the same instant `spec_now()` (the operation is treated as
// instantaneous). `Instant + Duration` REQUIRES no overflow (std panics otherwise) — callers must establish it.
pub mod vtime {
use vstd::prelude::*;
use std::time::{Duration, Instant};
verus! {
#[verifier::external_type_specification]
#[verifier::external_body]
pub struct ExInstant(Instant);

pub uninterp spec fn iv(i: Instant) -> int;       // nanoseconds on the monotonic time line
pub uninterp spec fn spec_now() -> int;
pub uninterp spec fn dur_nanos(d: Duration) -> int;
pub uninterp spec fn instant_max() -> int;         // largest representable Instant

pub assume_specification[ Instant::now ]() -> (r: Instant)
    ensures iv(r) == spec_now(), spec_now() <= instant_max();

pub open spec fn add_ok(a: Instant, d: Duration) -> bool { iv(a) + dur_nanos(d) <= instant_max() }

#[verifier::external_body]
pub fn verif_instant_add(a: Instant, d: Duration) -> (r: Instant)
    requires add_ok(a, d),
    ensures iv(r) == iv(a) + dur_nanos(d),
{ a + d }
#[verifier::external_body]
pub fn verif_instant_gt(a: Instant, b: Instant) -> (r: bool)
    ensures r == (iv(a) > iv(b)),
{ a > b }
#[verifier::external_body]
pub fn verif_instant_le(a: Instant, b: Instant) -> (r: bool)
    ensures r == (iv(a) <= iv(b)),
{ a <= b }
#[verifier::external_body]
pub fn verif_instant_sub(a: Instant, b: Instant) -> (r: Duration)
    requires iv(a) >= iv(b),     // std: panics (or saturates, version dependent) when b is later than a
    ensures dur_nanos(r) == iv(a) - iv(b),
{ a - b }

/// Instant::checked_add is `Some(a + d)` exactly when the sum is representable
pub assume_specification[ Instant::checked_add ](a: &Instant, d: Duration) -> (r: Option<Instant>)
    ensures add_ok(*a, d) ==> (r matches Some(x) && iv(x) == iv(*a) + dur_nanos(d)), !add_ok(*a, d) ==> r is None;
/// ASSUMED about the platform clock: a century ahead of any clock reading is representable
pub broadcast axiom fn axiom_century_ahead()
    ensures #[trigger] spec_now() + 3_153_600_000int * 1_000_000_000 <= instant_max();
/// the deadline a TTL starting at the current instant gets: exact when representable, saturated a century ahead otherwise
pub open spec fn sat_deadline(d: Duration) -> int {
    if spec_now() + dur_nanos(d) <= instant_max() { spec_now() + dur_nanos(d) } else { spec_now() + 3_153_600_000int * 1_000_000_000 }
}
/// elapsed time since an instant: unconstrained (reads the clock)
pub assume_specification[ Instant::elapsed ](i: &Instant) -> (r: Duration);
pub assume_specification[ Duration::is_zero ](d: &Duration) -> (r: bool)
    ensures r == (dur_nanos(*d) == 0);
pub assume_specification[ Duration::from_secs ](s: u64) -> (r: Duration)
    ensures dur_nanos(r) == s as int * 1_000_000_000;
pub assume_specification[ Duration::from_millis ](ms: u64) -> (r: Duration)
    ensures dur_nanos(r) == ms as int * 1_000_000;
/// Duration accessors (std: whole seconds, and the sub-second part in ns / ms)
/// whole milliseconds (std: truncating division of the nanosecond count)
pub assume_specification[ Duration::as_millis ](d: &Duration) -> (r: u128)
    ensures r == dur_nanos(*d) / 1_000_000;
pub assume_specification[ Duration::as_secs ](d: &Duration) -> (r: u64)
    ensures r as int == dur_nanos(*d) / 1_000_000_000;
pub assume_specification[ Duration::subsec_nanos ](d: &Duration) -> (r: u32)
    ensures r as int == dur_nanos(*d) % 1_000_000_000;
pub assume_specification[ Duration::subsec_millis ](d: &Duration) -> (r: u32)
    ensures r as int == (dur_nanos(*d) % 1_000_000_000) / 1_000_000;
pub broadcast axiom fn axiom_dur_nonneg(d: Duration)
    ensures #[trigger] dur_nanos(d) >= 0;
pub broadcast axiom fn axiom_instant_ext(a: Instant, b: Instant)
    ensures #![trigger iv(a), iv(b)] iv(a) == iv(b) ==> a == b;
pub broadcast group group_time { axiom_dur_nonneg, axiom_instant_ext, axiom_century_ahead }
}
}
pub use vtime::*;
