// ---- ASSUMED CONTRACT (not proved here; discharged only boundedly by the Kani skip-list units of C04):
// the sorted set seen by engine.rs is a sequence of (member, score) pairs in rank order.
verus! {
#[verifier::external_body]
#[verifier::reject_recursive_types(K)]
#[verifier::reject_recursive_types(V)]
pub struct SkipList<K, V> { _k: core::marker::PhantomData<(K, V)> }

pub struct RangeResult<K, V> { pub items: Vec<(K, V)> }

impl<K, V> SkipList<K, V> {
    pub uninterp spec fn view(&self) -> Seq<(K, V)>;

    #[verifier::external_body]
    pub fn len(&self) -> (r: usize)
        ensures r == self.view().len(),
    { unimplemented!() }

    #[verifier::external_body]
    pub fn is_empty(&self) -> (r: bool)
        ensures r == (self.view().len() == 0),
    { unimplemented!() }

    /// ranks are 0-based and inclusive; an end rank past the last element is cut at the last element;
    /// a start rank past the last element or past the end rank yields nothing
    #[verifier::external_body]
    pub fn range_by_rank(&self, start_rank: usize, end_rank: usize) -> (r: RangeResult<K, V>)
        ensures r.items@ == spec_rank_slice(self.view(), start_rank as int, end_rank as int),
    { unimplemented!() }
}

pub open spec fn spec_rank_slice<T>(v: Seq<T>, a: int, b: int) -> Seq<T> {
    let e = if b >= v.len() { v.len() - 1 } else { b };
    if a >= v.len() || a > e { Seq::<T>::empty() } else { v.subrange(a, e + 1) }
}
}
