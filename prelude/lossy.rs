// ---- TRUSTED: String::from_utf8_lossy is a deterministic function of the bytes (`lossy`); text is compared by the
// engine's glob matcher `pattern_matches`, specified separately (assumed contract here, bounded Kani unit for its body).
pub mod vlossy {
use vstd::prelude::*;
use std::borrow::Cow;
verus! {
pub uninterp spec fn lossy(b: Seq<u8>) -> Seq<char>;
pub uninterp spec fn cow_chars(c: Cow<'_, str>) -> Seq<char>;
pub uninterp spec fn str_chars(s: &str) -> Seq<char>;
/// the bytes a lossily decoded text was decoded from
pub uninterp spec fn cow_src(c: Cow<'_, str>) -> Seq<u8>;
pub assume_specification<'a>[ String::from_utf8_lossy ](v: &'a [u8]) -> (r: Cow<'a, str>)
    ensures cow_chars(r) == lossy(v@), cow_src(r) == v@;
pub uninterp spec fn spec_glob(p: Seq<char>, t: Seq<char>) -> bool;
/// ASSUMED CONTRACT for engine.rs::pattern_matches called through &Cow<str> deref: result is the glob relation on the two texts
#[verifier::external_body]
pub fn verif_pattern_matches(pattern: &Cow<'_, str>, text: &Cow<'_, str>) -> (r: bool)
    ensures r == spec_glob(cow_chars(*pattern), cow_chars(*text)),
{ unimplemented!() }
}
}
pub use vlossy::*;
