#![feature(allocator_api)]
#![allow(unused_imports, unused_variables, unused_mut, dead_code, unused_assignments, unreachable_code, unused_parens)]
use vstd::prelude::*;
use vstd::std_specs::cmp::OrdSpec;
verus! {
// target is x86_64: usize/isize are 64 bits (the repository's only supported deployment; stated assumption)
global size_of usize == 8;
}
