#![feature(allocator_api)]
#![allow(unused_imports, unused_variables, unused_mut, dead_code, unused_assignments, unreachable_code, unused_parens)]
use vstd::prelude::*;
use vstd::std_specs::cmp::OrdSpec;
