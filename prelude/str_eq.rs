// ---- TRUSTED: two `str`s with the same characters are the same value (Verus models `str` as an abstract value with a
// view; string-literal `match` arms and `==` compare the values)
pub mod str_eq {
use vstd::prelude::*;
verus! {
pub broadcast axiom fn axiom_str_ext(a: &str, b: &str)
    ensures #![trigger a@, b@] a@ == b@ ==> a == b;
pub broadcast group group_str_eq { axiom_str_ext }
}
}
pub use str_eq::*;
