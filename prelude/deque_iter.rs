// ---- TRUSTED: `for x in &deque` (IntoIterator for &VecDeque) yields references to the elements front to back, each once
// (vstd specifies `deque.iter()` but not this impl). Stated over the IteratorSpec interface of the installed vstd.
pub mod deque_iter {
use vstd::prelude::*;
use vstd::std_specs::iter::IteratorSpec;
use std::collections::VecDeque;
use std::alloc::Allocator;
verus! {
pub assume_specification<'a, T, A: Allocator>[ <&'a VecDeque<T, A> as IntoIterator>::into_iter ](v: &'a VecDeque<T, A>) -> (r: std::collections::vec_deque::Iter<'a, T>)
    ensures
        r.obeys_prophetic_iter_laws(), r.decrease() is Some,
        r.remaining().len() == v@.len(),
        forall|i: int| 0 <= i < r.remaining().len() ==> *(#[trigger] r.remaining()[i]) == v@[i];
}
}
pub use deque_iter::*;
