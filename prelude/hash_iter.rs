// ---- TRUSTED: `for (k, v) in &map` (IntoIterator for &HashMap) yields every entry of the map exactly once, in some order
// (vstd specifies `map.iter()` but not this impl). Stated over the IteratorSpec interface of the installed vstd.
pub mod hash_iter {
use vstd::prelude::*;
use vstd::std_specs::iter::IteratorSpec;
use std::collections::HashMap;
use std::alloc::Allocator;
verus! {
pub assume_specification<'a, K, V, S, A: Allocator>[ <&'a HashMap<K, V, S, A> as IntoIterator>::into_iter ](m: &'a HashMap<K, V, S, A>) -> (r: std::collections::hash_map::Iter<'a, K, V>)
    ensures
        r.obeys_prophetic_iter_laws(), r.decrease() is Some,
        r.remaining().no_duplicates(), r.remaining().len() == m@.len(),
        forall|i: int| 0 <= i < r.remaining().len() ==> m@.contains_key(*(#[trigger] r.remaining()[i]).0) && m@[*r.remaining()[i].0] == *r.remaining()[i].1,
        forall|k: K| #[trigger] m@.contains_key(k) ==> exists|i: int| 0 <= i < r.remaining().len() && *(#[trigger] r.remaining()[i]).0 == k;
}
}
pub use hash_iter::*;
// ---- TRUSTED: `for x in &hash_set` (IntoIterator for &HashSet) yields every member exactly once, in some order
pub mod hash_set_iter {
use vstd::prelude::*;
use vstd::std_specs::iter::IteratorSpec;
use std::collections::HashSet;
use std::alloc::Allocator;
verus! {
pub assume_specification<'a, T, S, A: Allocator>[ <&'a HashSet<T, S, A> as IntoIterator>::into_iter ](m: &'a HashSet<T, S, A>) -> (r: std::collections::hash_set::Iter<'a, T>)
    ensures
        r.obeys_prophetic_iter_laws(), r.decrease() is Some,
        r.remaining().no_duplicates(), r.remaining().len() == m@.len(),
        forall|i: int| 0 <= i < r.remaining().len() ==> m@.contains(*(#[trigger] r.remaining()[i])),
        forall|k: T| #[trigger] m@.contains(k) ==> exists|i: int| 0 <= i < r.remaining().len() && *(#[trigger] r.remaining()[i]) == k;
}
}
pub use hash_set_iter::*;
