// ---- ASSUMED CONTRACTS for the objects engine.rs mutates THROUGH SHARED REFERENCES (interior mutability: SkipList behind
// Arc + RwLock, Stream behind Mutex + atomics). Their state cannot be part of the shard's spec state, so the shard units
// state only what is checkable at the call site:
//   * SkipList::insert REQUIRES a score that is a number (C04: "a score that is not a number is never stored");
//   * results are otherwise unconstrained (havoc).
verus! {
pub uninterp spec fn f64_is_nan(x: f64) -> bool;
pub assume_specification[ f64::is_nan ](x: f64) -> (r: bool)
    ensures r == f64_is_nan(x);

/// f64 `+` at R7 operator sites: the body is the same operator; the sum is unconstrained (it may be NaN)
#[verifier::external_body]
pub fn verif_f64_add(a: f64, b: f64) -> (r: f64) { a + b }

impl<K, V> SkipList<K, V> {
    #[verifier::external_body]
    pub fn new() -> (r: Self) { unimplemented!() }
    #[verifier::external_body]
    pub fn clear_stub(&self) { unimplemented!() }
}
impl SkipList<Vec<u8>, f64> {
    #[verifier::external_body]
    pub fn insert(&self, key: Vec<u8>, value: f64) -> (r: Option<f64>)
        requires !f64_is_nan(value),
    { unimplemented!() }
    #[verifier::external_body]
    pub fn remove(&self, key: &[u8]) -> (r: Option<f64>) { unimplemented!() }
    /// ASSUMED CONTRACT (skiplist.rs SkipList::range_by_score; its body is raw-pointer code — bounded Kani instances skiplist_2ins_queries_*): the
    /// answer is a function of the list's content at the call and of the two bounds IN THIS ORDER
    #[verifier::external_body]
    pub fn range_by_score(&self, min_score: f64, max_score: f64) -> (r: ScoreRange)
        ensures r.items@ == spec_sl_by_score(*self, min_score, max_score),
    { unimplemented!() }
    #[verifier::external_body]
    pub fn get_score(&self, key: &[u8]) -> (r: Option<f64>)
        ensures r matches Some(s) ==> !f64_is_nan(s),      // stored scores are numbers (invariant kept by insert's precondition)
    { unimplemented!() }
}

/// the result record of the range functions (skiplist.rs RangeResult<K, V> at K = Vec<u8>, V = f64)
pub struct ScoreRange { pub items: Vec<(Vec<u8>, f64)> }
pub uninterp spec fn spec_sl_by_score(s: SkipList<Vec<u8>, f64>, min: f64, max: f64) -> Seq<(Vec<u8>, f64)>;
/// `items.reverse()` (RT site)
#[verifier::external_body]
pub fn verif_reverse_items(v: &mut Vec<(Vec<u8>, f64)>) ensures final(v)@ == old(v)@.reverse(), { unimplemented!() }
/// stream identity: the object that carries the entries AND the highest ID ever added
pub struct StreamId { pub packed: u128 }
/// an entry as the engine hands it on (opaque here) and the result record of the range functions (stream.rs StreamRangeResult)
#[verifier::external_body]
pub struct StreamEntry { _p: u8 }
pub struct StreamRangeResult { pub entries: Vec<StreamEntry> }
pub uninterp spec fn spec_stream_range(s: Stream, start: StreamId, end: StreamId, count: Option<usize>, reverse: bool) -> Seq<StreamEntry>;
pub uninterp spec fn spec_stream_range_after(s: Stream, after: StreamId, count: Option<usize>) -> Seq<StreamEntry>;
pub uninterp spec fn spec_stream_len(s: Stream) -> usize;
impl Stream {
    #[verifier::external_body]
    pub fn new() -> (r: Self) { unimplemented!() }
    #[verifier::external_body]
    pub fn add_auto(&self, fields: HashMap<Vec<u8>, Vec<u8>>) -> (r: StreamId) { unimplemented!() }
    #[verifier::external_body]
    pub fn trim_by_count(&self, max_count: usize) -> (r: usize) { unimplemented!() }
    #[verifier::external_body]
    pub fn delete(&self, ids: &Vec<StreamId>) -> (r: usize) { unimplemented!() }
    #[verifier::external_body]
    pub fn memory_usage(&self) -> (r: usize) { unimplemented!() }
    /// ASSUMED CONTRACT (stream.rs Stream::len — unit stream_len of c16_pel): the entry counter at the moment of the call
    #[verifier::external_body]
    pub fn len(&self) -> (r: usize) ensures r == spec_stream_len(*self), { unimplemented!() }
    #[verifier::external_body]
    pub fn is_empty(&self) -> (r: bool) { unimplemented!() }
    /// ASSUMED CONTRACTS (stream.rs Stream::range / Stream::range_after — units stream_range / stream_range_after of c16_pel, which prove
    /// the window these functions return): here only "a function of the stream's content at the call and of the arguments"
    #[verifier::external_body]
    pub fn range(&self, start: &StreamId, end: &StreamId, count: Option<usize>, reverse: bool) -> (r: StreamRangeResult)
        ensures r.entries@ == spec_stream_range(*self, *start, *end, count, reverse),
    { unimplemented!() }
    #[verifier::external_body]
    pub fn range_after(&self, after_id: &StreamId, count: Option<usize>) -> (r: StreamRangeResult)
        ensures r.entries@ == spec_stream_range_after(*self, *after_id, count),
    { unimplemented!() }
    #[verifier::external_body]
    pub fn clear(&self) { unimplemented!() }
}
impl Value {
    #[verifier::external_body]
    pub fn empty_stream() -> (r: Self) { unimplemented!() }
    #[verifier::external_body]
    pub fn empty_sorted_set() -> (r: Self) { unimplemented!() }
}
}
