// ---- STUBS for types the shard-level units mention but do not look into (each is an assumption, listed in evidence):
//   Stream (interior-mutable stream object), MemoryManager (atomic counters), StorageEngine (only memory accounting
//   is reachable from the units), ShardWatchTracker (ghost log of marked keys, DESIGN §4 assumption 5).
verus! {
pub type DatabaseIndex = usize;
pub type Key = Vec<u8>;
pub type Result<T> = std::result::Result<T, FerrousError>;

#[verifier::external_body]
pub struct Stream { _p: u8 }

#[verifier::external_body]
pub struct MemoryManager { _p: u8 }
impl MemoryManager {
    #[verifier::external_body]
    pub fn add_memory(&self, bytes: usize) -> bool { unimplemented!() }
    #[verifier::external_body]
    pub fn remove_memory(&self, bytes: usize) { unimplemented!() }
}

pub struct StorageEngine { pub memory_manager: std::sync::Arc<MemoryManager> }
impl StorageEngine {
    // ASSUMED: memory-accounting sizes are far below overflow (they are sums of lengths of live objects)
    #[verifier::external_body]
    pub fn calculate_value_size(&self, key: &[u8], value: &Value) -> (r: usize) ensures r <= usize::MAX / 4, { unimplemented!() }
    #[verifier::external_body]
    pub fn calculate_member_size(&self, member: &[u8]) -> (r: usize) ensures r <= usize::MAX / 4, { unimplemented!() }
}

/// ghost log of keys marked modified (stands for ShardWatchTracker's per-key counters; assumption 5)
pub struct ShardWatchTracker { pub marks: Ghost<Set<Seq<u8>>> }

impl DatabaseShard {
    /// ASSUMED CONTRACT for the real `mark_modified(&self)` (interior mutability): it records the key and touches nothing else
    #[verifier::external_body]
    fn mark_modified(&mut self, key: &[u8])
        ensures
            final(self).watch_tracker.marks@ == old(self).watch_tracker.marks@.insert(key@),
            final(self).data == old(self).data,
            final(self).expiring_keys == old(self).expiring_keys,
    { unimplemented!() }
}

impl Clone for Value {
    #[verifier::external_body]
    fn clone(&self) -> (r: Self)
        ensures r == *self,
    { unimplemented!() }
}

impl vstd::std_specs::convert::FromSpecImpl<StorageError> for FerrousError {
    open spec fn obeys_from_spec() -> bool { true }
    open spec fn from_spec(v: StorageError) -> FerrousError { FerrousError::Storage(v) }
}
impl vstd::std_specs::convert::FromSpecImpl<CommandError> for FerrousError {
    open spec fn obeys_from_spec() -> bool { true }
    open spec fn from_spec(v: CommandError) -> FerrousError { FerrousError::Command(v) }
}

#[verifier::external_body]
pub fn verif_fmt() -> String { unimplemented!() }
}
