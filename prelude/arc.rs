// ---- TRUSTED: Arc::as_ref returns a reference to the shared value
verus! {
pub assume_specification<T: ?Sized + core::marker::MetaSized, A: std::alloc::Allocator>[ <std::sync::Arc<T, A> as core::convert::AsRef<T>>::as_ref ](a: &std::sync::Arc<T, A>) -> (r: &T)
    ensures r == &**a;
}
