// ---- TRUSTED: UTF-8 validation, decimal parsing and printing, as uninterpreted deterministic functions of the bytes.
//   str::from_utf8 succeeds iff utf8_ok(bytes) and yields a str with those bytes; str::parse::<F> is a deterministic
//   partial function of the bytes; i64 -> decimal string -> parse is the identity (std Display/FromStr contract).
pub mod vstrnum {
use vstd::prelude::*;
verus! {
#[verifier::external_type_specification]
#[verifier::external_body]
pub struct ExUtf8Error(core::str::Utf8Error);
#[verifier::external_type_specification]
#[verifier::external_body]
pub struct ExParseIntError(core::num::ParseIntError);
#[verifier::external_type_specification]
#[verifier::external_body]
pub struct ExParseFloatError(core::num::ParseFloatError);

#[verifier::external_trait_specification]
pub trait ExFromStr: Sized {
    type ExternalTraitSpecificationFor: core::str::FromStr;
    type Err;
    fn from_str(s: &str) -> Result<Self, Self::Err>;
}

pub uninterp spec fn utf8_ok(b: Seq<u8>) -> bool;
pub uninterp spec fn str_bytes(s: &str) -> Seq<u8>;
pub uninterp spec fn string_bytes(s: String) -> Seq<u8>;
pub uninterp spec fn parse_spec<F>(b: Seq<u8>) -> Option<F>;
pub uninterp spec fn i64_str(n: i64) -> Seq<u8>;

pub assume_specification<'a>[ core::str::from_utf8 ](v: &'a [u8]) -> (r: Result<&'a str, core::str::Utf8Error>)
    ensures r is Ok <==> utf8_ok(v@), r matches Ok(s) ==> str_bytes(s) == v@;

pub assume_specification<F: core::str::FromStr>[ str::parse::<F> ](s: &str) -> (r: Result<F, F::Err>)
    ensures r is Ok <==> parse_spec::<F>(str_bytes(s)) is Some, r matches Ok(v) ==> parse_spec::<F>(str_bytes(s)) == Some(v);

pub assume_specification[ String::into_bytes ](s: String) -> (r: Vec<u8>)
    ensures r@ == string_bytes(s);

/// body is the very expression it replaces at RCALL sites (`n.to_string()`)
#[verifier::external_body]
pub fn verif_i64_to_string(n: i64) -> (r: String)
    ensures string_bytes(r) == i64_str(n),
{ n.to_string() }

pub open spec fn spec_parse_i64(b: Seq<u8>) -> Option<i64> { if utf8_ok(b) { parse_spec::<i64>(b) } else { None } }

pub broadcast axiom fn axiom_i64_print_parse(n: i64)
    ensures utf8_ok(#[trigger] i64_str(n)), parse_spec::<i64>(i64_str(n)) == Some(n);
pub broadcast group group_strnum { axiom_i64_print_parse }
}
}
pub use vstrnum::*;
