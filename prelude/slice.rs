// ---- TRUSTED: <[T]>::to_vec copies the slice
verus! {
pub assume_specification<T: Clone>[ <[T]>::to_vec ](s: &[T]) -> (r: Vec<T>)
    ensures r@.len() == s@.len(), forall|i: int| 0 <= i < s@.len() ==> cloned(s@[i], #[trigger] r@[i]),
;
}
