// ---- TRUSTED: <[T]>::to_vec copies the slice (element-wise clone); for bytes the copy has the same contents
pub mod vslice {
use vstd::prelude::*;
verus! {
pub uninterp spec fn is_to_vec_of<T>(s: Seq<T>, r: Seq<T>) -> bool;
pub assume_specification<T: Clone>[ <[T]>::to_vec ](s: &[T]) -> (r: Vec<T>)
    ensures r@.len() == s@.len(), forall|i: int| 0 <= i < s@.len() ==> cloned(s@[i], #[trigger] r@[i]), is_to_vec_of(s@, r@),
;
pub broadcast axiom fn axiom_to_vec_u8(s: Seq<u8>, r: Seq<u8>)
    ensures #[trigger] is_to_vec_of(s, r) ==> r == s;
pub broadcast group group_slice { axiom_to_vec_u8 }
}
}
pub use vslice::*;
