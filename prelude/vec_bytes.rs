// (vstd already specifies Vec::resize and <[T]>::copy_from_slice; nothing to add)
