// ---- TRUSTED: parsing a lossily decoded text. `String::from_utf8_lossy(b).parse::<F>()` is a deterministic partial
// function of the bytes (`parse_lossy_spec::<F>`); for i64 it succeeds exactly when the bytes are valid UTF-8 that parse
// as a decimal i64 (an invalid sequence becomes U+FFFD, which is not a digit).
pub mod vlossy_parse {
use vstd::prelude::*;
use std::borrow::Cow;
use super::{cow_src, spec_parse_i64};
verus! {
pub uninterp spec fn parse_lossy_spec<F>(b: Seq<u8>) -> Option<F>;
/// body is the very expression it replaces at RCALL sites (`<Cow<str>>.parse::<F>()`)
#[verifier::external_body]
pub fn verif_cow_parse<F: core::str::FromStr>(c: Cow<'_, str>) -> (r: std::result::Result<F, F::Err>)
    ensures match parse_lossy_spec::<F>(cow_src(c)) { Some(n) => r matches Ok(v) && v == n, None => r is Err },
{ c.parse::<F>() }
pub broadcast axiom fn axiom_parse_lossy_i64(b: Seq<u8>)
    ensures #[trigger] parse_lossy_spec::<i64>(b) == spec_parse_i64(b);
pub broadcast group group_lossy_parse { axiom_parse_lossy_i64 }
}
}
pub use vlossy_parse::*;
