// ---- TRUSTED: parsing a lossily decoded text: `String::from_utf8_lossy(b).parse::<i64>()` succeeds exactly when the
// bytes are valid UTF-8 that parse as a decimal i64 (an invalid sequence becomes U+FFFD, which is not a digit).
verus! {
/// body is the very expression it replaces at RCALL sites (`text.parse::<i64>()` on a Cow<str>)
#[verifier::external_body]
pub fn verif_cow_parse_i64(c: &Cow<'_, str>) -> (r: std::result::Result<i64, core::num::ParseIntError>)
    ensures match spec_parse_i64(cow_src(*c)) { Some(n) => r == std::result::Result::<i64, core::num::ParseIntError>::Ok(n), None => r is Err },
{ c.parse::<i64>() }
}
