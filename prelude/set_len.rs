// ---- TRUSTED: Rust allocation guarantee: a HashSet never holds more than isize::MAX elements
pub mod set_len {
use vstd::prelude::*;
use std::collections::HashSet;
verus! {
pub broadcast axiom fn axiom_hashset_len_bound<T>(s: HashSet<T>)
    ensures #[trigger] s@.len() <= isize::MAX;
}
}
pub use set_len::*;
