// ---- C16 key types. STUB of stream::StreamId: the packed (millis, seq) key; Copy + Eq + Ord by the packed value (the #[derive]s and
// the Ord impl of the real type, stream.rs:193-205, restated: `self.packed.cmp(&other.packed)`).
// TRUSTED: that ordering is a lawful total order (vstd's obeys_cmp_spec), and String obeys vstd's hash-key model.
verus! {
#[derive(Clone, Copy, PartialEq, Eq, PartialOrd, Ord, Hash)]
pub struct StreamId { pub packed: u128 }
}
pub mod c16_keys {
use vstd::prelude::*;
use super::StreamId;
verus! {
pub broadcast axiom fn axiom_streamid_cmp()
    ensures #[trigger] vstd::laws_cmp::obeys_cmp_spec::<StreamId>();
pub broadcast axiom fn axiom_string_key_model()
    ensures #[trigger] vstd::std_specs::hash::obeys_key_model::<String>();
/// String <-> its characters (two Strings with the same characters are the same value), and HashMap<String, _> looked up by &str
pub uninterp spec fn string_of(s: Seq<char>) -> String;
pub broadcast axiom fn axiom_string_of_view(k: String)
    ensures #[trigger] string_of(k@) == k;
pub broadcast axiom fn axiom_view_string_of(s: Seq<char>)
    ensures #[trigger] string_of(s)@ == s;
pub broadcast axiom fn axiom_contains_str_key<V>(m: Map<String, V>, q: &str)
    ensures #[trigger] vstd::std_specs::hash::contains_borrowed_key::<String, V, str>(m, q) == m.contains_key(string_of(q@));
pub broadcast axiom fn axiom_maps_str_key<V>(m: Map<String, V>, q: &str, v: V)
    ensures #[trigger] vstd::std_specs::hash::maps_borrowed_key_to_value::<String, V, str>(m, q, v) == (m.contains_key(string_of(q@)) && m[string_of(q@)] == v);
pub broadcast axiom fn axiom_removed_str_key<V>(m1: Map<String, V>, m2: Map<String, V>, q: &str)
    ensures #[trigger] vstd::std_specs::hash::borrowed_key_removed::<String, V, str>(m1, m2, q) == (m2 == m1.remove(string_of(q@)));
pub broadcast axiom fn axiom_updated_str_key<V>(m1: Map<String, V>, m2: Map<String, V>, q: &str, v: V)
    ensures #[trigger] super::borrowed_key_updated::<String, V, str>(m1, m2, q, v) == (m2 == m1.insert(string_of(q@), v));
pub broadcast group group_c16_keys { axiom_updated_str_key, axiom_streamid_cmp, axiom_string_key_model, axiom_string_of_view, axiom_view_string_of, axiom_contains_str_key, axiom_maps_str_key, axiom_removed_str_key }
}
}
pub use c16_keys::*;
