// ---- TRUSTED: std VecDeque methods vstd does not specify
verus! {
pub assume_specification<T, A: std::alloc::Allocator>[ std::collections::VecDeque::<T, A>::is_empty ](v: &std::collections::VecDeque<T, A>) -> (r: bool)
    ensures r == (v@.len() == 0);
}
