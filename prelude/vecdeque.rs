// ---- TRUSTED: std VecDeque facts vstd does not provide
pub mod vdeque {
use vstd::prelude::*;
verus! {
pub assume_specification<T, A: std::alloc::Allocator>[ std::collections::VecDeque::<T, A>::is_empty ](v: &std::collections::VecDeque<T, A>) -> (r: bool)
    ensures r == (v@.len() == 0);
/// Rust allocation guarantee: a collection never holds more than isize::MAX elements
pub broadcast axiom fn axiom_vecdeque_len_bound<T>(v: std::collections::VecDeque<T>)
    ensures #[trigger] v@.len() <= isize::MAX;
pub broadcast group group_vecdeque { axiom_vecdeque_len_bound }
}
}
pub use vdeque::*;
