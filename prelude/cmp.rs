// ---- TRUSTED: std::cmp::{min,max} on primitive integers (std: returns the smaller/larger argument)
verus! {
pub assume_specification<T: Ord + core::marker::Destruct>[ core::cmp::max::<T> ](a: T, b: T) -> (r: T)
    ensures
        (a.cmp_spec(&b) == core::cmp::Ordering::Greater) ==> r == a,
        !(a.cmp_spec(&b) == core::cmp::Ordering::Greater) ==> r == b,
;
pub assume_specification<T: Ord + core::marker::Destruct>[ core::cmp::min::<T> ](a: T, b: T) -> (r: T)
    ensures
        (a.cmp_spec(&b) == core::cmp::Ordering::Greater) ==> r == b,
        !(a.cmp_spec(&b) == core::cmp::Ordering::Greater) ==> r == a,
;
// ---- TRUSTED: mem::drop consumes its argument (for a `&mut` argument: the borrow ends with its current value)
pub assume_specification<T>[ core::mem::drop::<T> ](x: T)
    ensures has_resolved(x);
// ---- TRUSTED: mem::replace stores the new value and returns the old one
pub assume_specification<T>[ core::mem::replace::<T> ](dest: &mut T, src: T) -> (r: T)
    ensures *final(dest) == src, r == *old(dest);
// ---- TRUSTED: Result::unwrap_or (std: the Ok payload, else the given default)
pub assume_specification<T: core::marker::Destruct, E: core::marker::Destruct>[ core::result::Result::<T, E>::unwrap_or ](r: core::result::Result<T, E>, d: T) -> (o: T)
    ensures o == (match r { Ok(v) => v, Err(_) => d });
// ---- TRUSTED: i64::checked_neg (std: None exactly for i64::MIN)
pub assume_specification[ i64::checked_neg ](x: i64) -> (r: Option<i64>)
    ensures x == i64::MIN ==> r is None, x != i64::MIN ==> r == Some((-x) as i64);
}
