// ---- TRUSTED: std::cmp::{min,max} on primitive integers (std: returns the smaller/larger argument)
verus! {
pub assume_specification<T: Ord + core::marker::Destruct>[ core::cmp::max::<T> ](a: T, b: T) -> (r: T)
    ensures
        (a.cmp_spec(&b) == core::cmp::Ordering::Greater) ==> r == a,
        !(a.cmp_spec(&b) == core::cmp::Ordering::Greater) ==> r == b,
;
pub assume_specification<T: Ord + core::marker::Destruct>[ core::cmp::min::<T> ](a: T, b: T) -> (r: T)
    ensures
        (a.cmp_spec(&b) == core::cmp::Ordering::Greater) ==> r == b,
        !(a.cmp_spec(&b) == core::cmp::Ordering::Greater) ==> r == a,
;
// ---- TRUSTED: mem::drop consumes its argument (for a `&mut` argument: the borrow ends with its current value)
pub assume_specification<T>[ core::mem::drop::<T> ](x: T)
    ensures has_resolved(x);
// ---- TRUSTED: mem::replace stores the new value and returns the old one
pub assume_specification<T>[ core::mem::replace::<T> ](dest: &mut T, src: T) -> (r: T)
    ensures *final(dest) == src, r == *old(dest);
// ---- TRUSTED: Result::unwrap_or (std: the Ok payload, else the given default)
pub assume_specification<T: core::marker::Destruct, E: core::marker::Destruct>[ core::result::Result::<T, E>::unwrap_or ](r: core::result::Result<T, E>, d: T) -> (o: T)
    ensures o == (match r { Ok(v) => v, Err(_) => d });
// ---- TRUSTED: i64::checked_neg (std: None exactly for i64::MIN)
pub assume_specification[ i64::checked_neg ](x: i64) -> (r: Option<i64>)
    ensures x == i64::MIN ==> r is None, x != i64::MIN ==> r == Some((-x) as i64);
// ---- TRUSTED: Vec::dedup removes CONSECUTIVE repeated elements (std), for element types whose `==` is structural
pub open spec fn spec_dedup<T>(s: Seq<T>) -> Seq<T>
    decreases s.len()
{
    if s.len() <= 1 { s } else if s[s.len() - 1] == s[s.len() - 2] { spec_dedup(s.drop_last()) } else { spec_dedup(s.drop_last()).push(s[s.len() - 1]) }
}
pub assume_specification<T: PartialEq, A: std::alloc::Allocator>[ Vec::<T, A>::dedup ](v: &mut Vec<T, A>)
    ensures final(v)@ == spec_dedup(old(v)@);
// ---- TRUSTED: integer methods of std that vstd does not specify (each: the documented std behaviour)
pub assume_specification[ i64::abs ](x: i64) -> (r: i64)
    requires x != i64::MIN,
    ensures r == (if x < 0 { -x } else { x as int });
pub assume_specification[ i64::saturating_add ](x: i64, y: i64) -> (r: i64)
    ensures r == (if x + y > i64::MAX { i64::MAX as int } else if x + y < i64::MIN { i64::MIN as int } else { x + y });
pub assume_specification[ i64::wrapping_neg ](x: i64) -> (r: i64)
    ensures r == (if x == i64::MIN { i64::MIN as int } else { -x });
pub assume_specification[ isize::checked_neg ](x: isize) -> (r: Option<isize>)
    ensures x == isize::MIN ==> r is None, x != isize::MIN ==> r == Some((-x) as isize);
pub assume_specification[ isize::saturating_sub ](x: isize, y: isize) -> (r: isize)
    ensures r == (if x - y > isize::MAX { isize::MAX as int } else if x - y < isize::MIN { isize::MIN as int } else { x - y });
pub assume_specification[ isize::unsigned_abs ](x: isize) -> (r: usize)
    ensures r == (if x < 0 { -x } else { x as int });
pub assume_specification[ isize::rem_euclid ](x: isize, y: isize) -> (r: isize)
    requires y != 0, !(x == isize::MIN && y == -1),
    ensures 0 <= r < (if y < 0 { -y } else { y as int }), (x - r) % (y as int) == 0;
pub assume_specification[ usize::abs_diff ](x: usize, y: usize) -> (r: usize)
    ensures r == (if x >= y { x - y } else { y - x });
// ---- TRUSTED: VecDeque ends and O(1) removal (std: swap_remove_back moves the LAST element into the vacated slot)
pub assume_specification<T, A: std::alloc::Allocator>[ std::collections::VecDeque::<T, A>::front ](q: &std::collections::VecDeque<T, A>) -> (r: Option<&T>)
    ensures q@.len() == 0 ==> r is None, q@.len() > 0 ==> r == Some(&q@[0]);
pub assume_specification<T, A: std::alloc::Allocator>[ std::collections::VecDeque::<T, A>::back ](q: &std::collections::VecDeque<T, A>) -> (r: Option<&T>)
    ensures q@.len() == 0 ==> r is None, q@.len() > 0 ==> r == Some(&q@[q@.len() - 1]);
pub assume_specification<T, A: std::alloc::Allocator>[ std::collections::VecDeque::<T, A>::swap_remove_back ](q: &mut std::collections::VecDeque<T, A>, index: usize) -> (r: Option<T>)
    ensures
        index >= old(q)@.len() ==> r is None && final(q)@ == old(q)@,
        index < old(q)@.len() ==> r == Some(old(q)@[index as int])
            && final(q)@ == (if index == old(q)@.len() - 1 { old(q)@.drop_last() } else { old(q)@.drop_last().update(index as int, old(q)@[old(q)@.len() - 1]) });
// ---- TRUSTED: <[T]>::binary_search, stated only as far as std guarantees WITHOUT knowing the slice is sorted: a hit is a real
// position of an element that compares Equal (for a type that obeys vstd's cmp laws — asserted in this repo only for StreamId,
// whose Eq and Ord are both the packed value — Equal means the same value); a miss says nothing about absence.
pub assume_specification<T: Ord>[ <[T]>::binary_search ](s: &[T], x: &T) -> (r: std::result::Result<usize, usize>)
    ensures match r { Ok(i) => i < s@.len() && (vstd::laws_cmp::obeys_cmp_spec::<T>() ==> s@[i as int] == *x), Err(i) => i <= s@.len() };
// ---- TRUSTED: slice membership for element types whose `==` is structural
pub assume_specification<T: PartialEq>[ <[T]>::contains ](s: &[T], x: &T) -> (r: bool)
    ensures r == s@.contains(*x);
// ---- TRUSTED: Option::as_deref borrows the payload through Deref (std); for Vec<u8> the target slice has the same bytes
pub uninterp spec fn deref_spec<T: core::ops::Deref>(t: &T) -> &T::Target;
pub assume_specification<T: core::ops::Deref>[ Option::<T>::as_deref ](o: &Option<T>) -> (r: Option<&T::Target>)
    ensures r == (match o { Some(v) => Some(deref_spec(v)), None => None });
pub broadcast axiom fn axiom_deref_vec_u8(v: &Vec<u8>)
    ensures #[trigger] deref_spec::<Vec<u8>>(v)@ == v@;
}
