// ---- TRUSTED (HashMap::clone / VecDeque::clone are specified by vstd): mem::take leaves Default::default() behind, and the default
// VecDeque / HashMap is empty
pub mod clone_take {
use vstd::prelude::*;
use std::collections::{HashMap, VecDeque};
use std::alloc::Allocator;
verus! {
pub uninterp spec fn is_default_value<T>(t: T) -> bool;
pub assume_specification<T: Default>[ core::mem::take::<T> ](d: &mut T) -> (r: T)
    ensures r == *old(d), is_default_value(*final(d));
pub broadcast axiom fn axiom_default_vecdeque<T>(v: VecDeque<T>)
    ensures #[trigger] is_default_value(v) ==> v@.len() == 0;
pub broadcast group group_clone_take { axiom_default_vecdeque }
}
}
pub use clone_take::*;
