// ---- TRUSTED: <[T]>::reverse reverses in place (called on a Vec through auto-deref)
verus! {
pub open spec fn seq_rev<T>(s: Seq<T>) -> Seq<T> { Seq::new(s.len(), |i: int| s[s.len() - 1 - i]) }
}
verus! {
pub assume_specification<T>[ <[T]>::reverse ](s: &mut [T])
    ensures final(s)@ == seq_rev(old(s)@),
;
}
