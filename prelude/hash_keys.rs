// ---- TRUSTED: byte-vector keys. (1) Vec<u8> is in bijection with byte sequences of machine length, i.e. two
// Vec<u8> with the same bytes are the same value (Eq/Hash/Borrow on Vec<u8> and [u8] are by content: std guarantee);
// (2) looking a Vec<u8>-keyed std HashMap/HashSet up by &[u8] addresses the key with the same bytes;
// (3) Vec<u8> obeys vstd's key model; (4) HashMap::get_mut returns a reference into the map: the final map is the
// old map with that key's value replaced by the final value of the reference.
pub mod byte_keys {
use vstd::prelude::*;
verus! {
pub uninterp spec fn key_of(s: Seq<u8>) -> Vec<u8>;

pub broadcast axiom fn axiom_key_of_view(k: Vec<u8>)
    ensures #[trigger] key_of(k@) == k;
pub broadcast axiom fn axiom_view_key_of(s: Seq<u8>)
    requires s.len() <= usize::MAX,
    ensures #[trigger] key_of(s)@ == s;
pub broadcast axiom fn axiom_vecu8_ext(a: Vec<u8>, b: Vec<u8>)
    ensures #![trigger a.view(), b.view()] (a@ =~= b@) ==> a == b;

pub broadcast axiom fn axiom_slice_len_bound(q: &[u8])
    ensures #[trigger] q@.len() <= usize::MAX;
pub broadcast axiom fn axiom_vec_len_bound(v: Vec<u8>)
    ensures #[trigger] v@.len() <= isize::MAX;      // Rust allocation guarantee
pub broadcast axiom fn axiom_vecvec_len_bound<T>(v: Vec<T>)
    ensures #[trigger] v@.len() <= isize::MAX;      // Rust allocation guarantee (any element type)
pub broadcast axiom fn axiom_slice_any_len_bound<T>(q: &[T])
    ensures #[trigger] q@.len() <= isize::MAX;      // Rust allocation guarantee (a slice spans at most isize::MAX bytes)
pub broadcast axiom fn axiom_vecu8_key_model()
    ensures #[trigger] vstd::std_specs::hash::obeys_key_model::<Vec<u8>>();

pub broadcast axiom fn axiom_contains_slice_key<V>(m: Map<Vec<u8>, V>, q: &[u8])
    ensures #[trigger] vstd::std_specs::hash::contains_borrowed_key::<Vec<u8>, V, [u8]>(m, q) == m.contains_key(key_of(q@));
pub broadcast axiom fn axiom_maps_slice_key<V>(m: Map<Vec<u8>, V>, q: &[u8], v: V)
    ensures #[trigger] vstd::std_specs::hash::maps_borrowed_key_to_value::<Vec<u8>, V, [u8]>(m, q, v) == (m.contains_key(key_of(q@)) && m[key_of(q@)] == v);
pub broadcast axiom fn axiom_removed_slice_key<V>(m1: Map<Vec<u8>, V>, m2: Map<Vec<u8>, V>, q: &[u8])
    ensures #[trigger] vstd::std_specs::hash::borrowed_key_removed::<Vec<u8>, V, [u8]>(m1, m2, q) == (m2 == m1.remove(key_of(q@)));

pub uninterp spec fn borrowed_key_updated<K, V, Q: ?Sized>(m1: Map<K, V>, m2: Map<K, V>, k: &Q, v: V) -> bool;

pub assume_specification<'a, K, V, S, A, Q>[ std::collections::HashMap::<K, V, S, A>::get_mut ](m: &'a mut std::collections::HashMap<K, V, S, A>, k: &Q) -> (r: Option<&'a mut V>)
    where
        A: std::alloc::Allocator,
        K: std::cmp::Eq + std::hash::Hash + std::borrow::Borrow<Q>,
        Q: std::marker::MetaSized + std::hash::Hash + std::cmp::Eq + ?Sized,
        S: std::hash::BuildHasher,
    ensures
        vstd::std_specs::hash::obeys_key_model::<K>() && vstd::std_specs::hash::builds_valid_hashers::<S>() ==> match r {
            Some(v) => vstd::std_specs::hash::maps_borrowed_key_to_value(old(m)@, k, *v) && borrowed_key_updated(old(m)@, final(m)@, k, *final(v)),
            None => !vstd::std_specs::hash::contains_borrowed_key(old(m)@, k) && final(m)@ == old(m)@,
        },
;
pub broadcast axiom fn axiom_updated_slice_key<V>(m1: Map<Vec<u8>, V>, m2: Map<Vec<u8>, V>, q: &[u8], v: V)
    ensures #[trigger] borrowed_key_updated::<Vec<u8>, V, [u8]>(m1, m2, q, v) == (m2 == m1.insert(key_of(q@), v));
pub broadcast axiom fn axiom_updated_vec_key<V>(m1: Map<Vec<u8>, V>, m2: Map<Vec<u8>, V>, q: &Vec<u8>, v: V)
    ensures #[trigger] borrowed_key_updated::<Vec<u8>, V, Vec<u8>>(m1, m2, q, v) == (m2 == m1.insert(*q, v));

/// looking a map up by a reference to its own key type addresses that key (Borrow<K> for K is the identity)
pub broadcast axiom fn axiom_updated_same_key<K, V>(m1: Map<K, V>, m2: Map<K, V>, q: &K, v: V)
    ensures #[trigger] borrowed_key_updated::<K, V, K>(m1, m2, q, v) == (m2 == m1.insert(*q, v));

pub broadcast axiom fn axiom_set_contains_slice_key(s: Set<Vec<u8>>, q: &[u8])
    ensures #[trigger] vstd::std_specs::hash::set_contains_borrowed_key::<Vec<u8>, [u8]>(s, q) == s.contains(key_of(q@));
pub broadcast axiom fn axiom_sets_differ_slice_key(s1: Set<Vec<u8>>, s2: Set<Vec<u8>>, q: &[u8])
    ensures #[trigger] vstd::std_specs::hash::sets_differ_by_borrowed_key::<Vec<u8>, [u8]>(s1, s2, q) == (s2 == s1.remove(key_of(q@)));

pub broadcast group group_byte_keys {
    axiom_set_contains_slice_key, axiom_sets_differ_slice_key,
    axiom_key_of_view, axiom_view_key_of, axiom_vecu8_ext, axiom_slice_len_bound, axiom_vec_len_bound, axiom_vecvec_len_bound, axiom_slice_any_len_bound, axiom_vecu8_key_model,
    axiom_contains_slice_key, axiom_maps_slice_key, axiom_removed_slice_key, axiom_updated_slice_key, axiom_updated_vec_key, axiom_updated_same_key,
}
}
}
pub use byte_keys::*;
