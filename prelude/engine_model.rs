// ---- ENGINE MODEL for command-layer units. The real handlers take `storage: &Arc<StorageEngine>` and call `&self`
// methods that mutate behind locks; that state change is invisible to Verus. In handler units the parameter is replaced
// (declared `params drop/add`) by `storage: &mut EngineModel`, whose methods have the SAME NAMES AND ARGUMENTS but take
// `&mut self` and carry contracts over the abstract dataset `ds`. Each contract below is an ASSUMED CONTRACT at this
// level (listed in evidence); the per-shard behaviour they summarise is what the shard_* groups prove.
verus! {
pub struct EngineModel { pub ds: Ghost<DS> }
pub open spec fn wt() -> FerrousError { FerrousError::Storage(StorageError::WrongType) }

/// abstract value of an exec Value
pub open spec fn dv_of(v: Value) -> DV {
    match v {
        Value::String(b) => DV::Str(b@),
        Value::List(l) => DV::List(l@),
        Value::Set(m) => DV::Set(m@),
        Value::Hash(h) => DV::Hash(h@),
        Value::SortedSet(_) => DV::ZSet,
        Value::Stream(_) => DV::Stream,
    }
}

impl EngineModel {
    #[verifier::external_body]
    pub fn get(&mut self, db: usize, key: &[u8]) -> (r: Result<GetResult>)
        ensures final(self).ds@ == old(self).ds@,
            match ds_get(old(self).ds@, db as int, key@) {
                None => r matches Ok(g) && (g is NotFound || g is Expired),
                Some(dv) => r matches Ok(GetResult::Found(v)) && dv_of(v) == dv,
            },
    { unimplemented!() }
    #[verifier::external_body]
    pub fn get_string(&mut self, db: usize, key: &[u8]) -> (r: Result<Option<Vec<u8>>>)
        ensures final(self).ds@ == old(self).ds@,
            match ds_get(old(self).ds@, db as int, key@) {
                None => r matches Ok(None),
                Some(DV::Str(b)) => r matches Ok(Some(v)) && v@ == b,
                Some(_) => r matches Err(e) && e == wt(),
            },
    { unimplemented!() }

    #[verifier::external_body]
    pub fn set_string(&mut self, db: usize, key: Vec<u8>, value: Vec<u8>) -> (r: Result<()>)
        ensures r is Ok ==> final(self).ds@ == old(self).ds@.insert((db as int, key@), DV::Str(value@)),
            r is Err ==> final(self).ds@ == old(self).ds@,
    { unimplemented!() }

    #[verifier::external_body]
    pub fn append(&mut self, db: usize, key: Vec<u8>, value: Vec<u8>) -> (r: Result<usize>)
        ensures match ds_get(old(self).ds@, db as int, key@) {
                None => r matches Ok(n) && n == value@.len() && final(self).ds@ == old(self).ds@.insert((db as int, key@), DV::Str(value@)),
                Some(DV::Str(b)) => r matches Ok(n) && n == b.len() + value@.len() && final(self).ds@ == old(self).ds@.insert((db as int, key@), DV::Str(b + value@)),
                Some(_) => (r matches Err(e) && e == wt()) && final(self).ds@ == old(self).ds@,
            },
    { unimplemented!() }

    #[verifier::external_body]
    pub fn strlen(&mut self, db: usize, key: &[u8]) -> (r: Result<usize>)
        ensures final(self).ds@ == old(self).ds@,
            match ds_get(old(self).ds@, db as int, key@) {
                None => r matches Ok(n) && n == 0,
                Some(DV::Str(b)) => r matches Ok(n) && n == b.len(),
                Some(_) => r matches Err(e) && e == wt(),
            },
    { unimplemented!() }

    #[verifier::external_body]
    pub fn getrange(&mut self, db: usize, key: &[u8], start: isize, end: isize) -> (r: Result<Vec<u8>>)
        ensures final(self).ds@ == old(self).ds@,
            match ds_get(old(self).ds@, db as int, key@) {
                None => r matches Ok(v) && v@.len() == 0,
                Some(DV::Str(b)) => r matches Ok(v) && v@ == spec_getrange(b, start as int, end as int),
                Some(_) => r matches Err(e) && e == wt(),
            },
    { unimplemented!() }
}
}
