// ---- ENGINE MODEL for command-layer units. The real handlers take `storage: &Arc<StorageEngine>` and call `&self`
// methods that mutate behind locks; that state change is invisible to Verus. In handler units the parameter is replaced
// (declared `params drop/add`) by `storage: &mut EngineModel`, whose methods have the SAME NAMES AND ARGUMENTS but take
// `&mut self` and carry contracts over the abstract dataset `ds` (spec/dataset.rs). Each contract below is an ASSUMED
// CONTRACT at this level (listed in evidence); the per-shard behaviour they summarise is what the shard_* groups prove
// (modulo R2, get_shard routing and lazy expiry).
verus! {
/// `ds`: (db, key) -> abstract value. `ttl`: the keys that carry a time-to-live, with the duration (ns) asked for when it was set
/// (only the contracts of the TTL-aware methods further down speak about `ttl`; remaining time is the engine's business, C02 shard units)
/// `z`: members and scores of the sorted sets (the dataset value DV::ZSet itself carries no content)
pub struct EngineModel { pub ds: Ghost<DS>, pub ttl: Ghost<Map<(int, Seq<u8>), int>>, pub z: Ghost<Map<(int, Seq<u8>), Map<Seq<u8>, f64>>> }
pub open spec fn wt() -> FerrousError { FerrousError::Storage(StorageError::WrongType) }
pub open spec fn dv_of(v: Value) -> DV {
    match v {
        Value::String(b) => DV::Str(b@), Value::List(l) => DV::List(l@), Value::Set(m) => DV::Set(m@), Value::Hash(h) => DV::Hash(h@),
        Value::SortedSet(_) => DV::ZSet, Value::Stream(_) => DV::Stream,
    }
}
/// an engine result agrees with an abstract reply: WrongType is the WrongType storage error, any other refusal some other error
pub open spec fn res_int(r: Result<usize>, rv: RV) -> bool {
    match rv { RV::Int(n) => r matches Ok(v) && v == n, RV::WrongType => r matches Err(e) && e == wt(), RV::OtherErr => r matches Err(e) && e != wt(), _ => false }
}
pub open spec fn res_bytes(r: Result<Vec<u8>>, rv: RV) -> bool {
    match rv { RV::Bulk(Some(b)) => r matches Ok(v) && v@ == b, RV::WrongType => r matches Err(e) && e == wt(), RV::OtherErr => r matches Err(e) && e != wt(), _ => false }
}
pub open spec fn res_opt_bytes(r: Result<Option<Vec<u8>>>, rv: RV) -> bool {
    match rv { RV::Bulk(Some(b)) => r matches Ok(Some(v)) && v@ == b, RV::Bulk(None) => r matches Ok(None), RV::WrongType => r matches Err(e) && e == wt(), RV::OtherErr => r matches Err(e) && e != wt(), _ => false }
}
pub open spec fn res_unit(r: Result<()>, rv: RV) -> bool {
    match rv { RV::Okay => r is Ok, RV::WrongType => r matches Err(e) && e == wt(), RV::OtherErr => r matches Err(e) && e != wt(), _ => false }
}
pub open spec fn res_arr(r: Result<Vec<Vec<u8>>>, rv: RV) -> bool {
    match rv { RV::Arr(a) => r matches Ok(v) && v@.map_values(|x: Vec<u8>| x@) == a, RV::WrongType => r matches Err(e) && e == wt(), RV::OtherErr => r matches Err(e) && e != wt(), _ => false }
}

impl EngineModel {
    #[verifier::external_body]
    pub fn get(&mut self, db: usize, key: &[u8]) -> (r: Result<GetResult>)
        ensures final(self).ds@ == old(self).ds@, final(self).ttl@ == old(self).ttl@,
            match ds_get(old(self).ds@, db as int, key@) {
                None => r matches Ok(g) && (g is NotFound || g is Expired),
                Some(dv) => r matches Ok(GetResult::Found(v)) && dv_of(v) == dv,
            },
    { unimplemented!() }
    #[verifier::external_body]
    pub fn get_string(&mut self, db: usize, key: &[u8]) -> (r: Result<Option<Vec<u8>>>)
        ensures final(self).ds@ == old(self).ds@, final(self).ttl@ == old(self).ttl@,
            match ds_get(old(self).ds@, db as int, key@) {
                None => r matches Ok(None),
                Some(DV::Str(b)) => r matches Ok(Some(v)) && v@ == b,
                Some(_) => r matches Err(e) && e == wt(),
            },
    { unimplemented!() }
    #[verifier::external_body]
    pub fn set_string(&mut self, db: usize, key: Vec<u8>, value: Vec<u8>) -> (r: Result<()>)
        ensures r is Ok ==> final(self).ds@ == old(self).ds@.insert((db as int, key@), DV::Str(value@)),
            r is Err ==> final(self).ds@ == old(self).ds@,
    { unimplemented!() }
    #[verifier::external_body]
    pub fn append(&mut self, db: usize, key: Vec<u8>, value: Vec<u8>) -> (r: Result<usize>)
        ensures res_int(r, spec_append(old(self).ds@, db as int, key@, value@).0), final(self).ds@ == spec_append(old(self).ds@, db as int, key@, value@).1,
    { unimplemented!() }
    #[verifier::external_body]
    pub fn strlen(&mut self, db: usize, key: &[u8]) -> (r: Result<usize>)
        ensures res_int(r, spec_strlen(old(self).ds@, db as int, key@).0), final(self).ds@ == old(self).ds@,
    { unimplemented!() }
    #[verifier::external_body]
    pub fn getrange(&mut self, db: usize, key: &[u8], start: isize, end: isize) -> (r: Result<Vec<u8>>)
        ensures res_bytes(r, spec_getrange_cmd(old(self).ds@, db as int, key@, start as int, end as int).0), final(self).ds@ == old(self).ds@,
    { unimplemented!() }
    #[verifier::external_body]
    pub fn setrange(&mut self, db: usize, key: Vec<u8>, offset: usize, value: Vec<u8>) -> (r: Result<usize>)
        ensures res_int(r, spec_setrange_cmd(old(self).ds@, db as int, key@, offset as int, value@).0), final(self).ds@ == spec_setrange_cmd(old(self).ds@, db as int, key@, offset as int, value@).1,
    { unimplemented!() }
    // ---- lists
    #[verifier::external_body]
    pub fn lpush(&mut self, db: usize, key: Vec<u8>, elements: Vec<Vec<u8>>) -> (r: Result<usize>)
        requires elements@.len() > 0,
        ensures res_int(r, spec_push(old(self).ds@, db as int, key@, elements@, true).0), final(self).ds@ == spec_push(old(self).ds@, db as int, key@, elements@, true).1,
    { unimplemented!() }
    #[verifier::external_body]
    pub fn rpush(&mut self, db: usize, key: Vec<u8>, elements: Vec<Vec<u8>>) -> (r: Result<usize>)
        requires elements@.len() > 0,
        ensures res_int(r, spec_push(old(self).ds@, db as int, key@, elements@, false).0), final(self).ds@ == spec_push(old(self).ds@, db as int, key@, elements@, false).1,
    { unimplemented!() }
    #[verifier::external_body]
    pub fn lpop(&mut self, db: usize, key: &[u8]) -> (r: Result<Option<Vec<u8>>>)
        ensures res_opt_bytes(r, spec_pop(old(self).ds@, db as int, key@, true).0), final(self).ds@ == spec_pop(old(self).ds@, db as int, key@, true).1,
    { unimplemented!() }
    #[verifier::external_body]
    pub fn rpop(&mut self, db: usize, key: &[u8]) -> (r: Result<Option<Vec<u8>>>)
        ensures res_opt_bytes(r, spec_pop(old(self).ds@, db as int, key@, false).0), final(self).ds@ == spec_pop(old(self).ds@, db as int, key@, false).1,
    { unimplemented!() }
    #[verifier::external_body]
    pub fn llen(&mut self, db: usize, key: &[u8]) -> (r: Result<usize>)
        ensures res_int(r, spec_llen(old(self).ds@, db as int, key@).0), final(self).ds@ == old(self).ds@,
    { unimplemented!() }
    #[verifier::external_body]
    pub fn lindex(&mut self, db: usize, key: &[u8], index: isize) -> (r: Result<Option<Vec<u8>>>)
        ensures res_opt_bytes(r, spec_lindex(old(self).ds@, db as int, key@, index as int).0), final(self).ds@ == old(self).ds@,
    { unimplemented!() }
    #[verifier::external_body]
    pub fn lset(&mut self, db: usize, key: Vec<u8>, index: isize, value: Vec<u8>) -> (r: Result<()>)
        ensures res_unit(r, spec_lset(old(self).ds@, db as int, key@, index as int, value).0), final(self).ds@ == spec_lset(old(self).ds@, db as int, key@, index as int, value).1,
    { unimplemented!() }
    #[verifier::external_body]
    pub fn lrange(&mut self, db: usize, key: &[u8], start: isize, stop: isize) -> (r: Result<Vec<Vec<u8>>>)
        ensures res_arr(r, spec_lrange(old(self).ds@, db as int, key@, start as int, stop as int).0), final(self).ds@ == old(self).ds@,
    { unimplemented!() }
    #[verifier::external_body]
    pub fn ltrim(&mut self, db: usize, key: Vec<u8>, start: isize, stop: isize) -> (r: Result<()>)
        ensures res_unit(r, spec_ltrim(old(self).ds@, db as int, key@, start as int, stop as int).0), final(self).ds@ == spec_ltrim(old(self).ds@, db as int, key@, start as int, stop as int).1,
    { unimplemented!() }
}

impl EngineModel {
    // ---- sets
    #[verifier::external_body]
    pub fn sadd(&mut self, db: usize, key: Vec<u8>, members: Vec<Vec<u8>>) -> (r: Result<usize>)
        requires members@.len() > 0,
        ensures res_int(r, spec_sadd(old(self).ds@, db as int, key@, members@).0), final(self).ds@ == spec_sadd(old(self).ds@, db as int, key@, members@).1,
    { unimplemented!() }
    #[verifier::external_body]
    pub fn sismember(&mut self, db: usize, key: &[u8], member: &[u8]) -> (r: Result<bool>)
        ensures final(self).ds@ == old(self).ds@,
            match spec_sismember(old(self).ds@, db as int, key@, member@).0 { RV::Int(n) => r matches Ok(b) && b == (n == 1), _ => r matches Err(e) && e == wt() },
    { unimplemented!() }
    #[verifier::external_body]
    pub fn scard(&mut self, db: usize, key: &[u8]) -> (r: Result<usize>)
        ensures res_int(r, spec_scard(old(self).ds@, db as int, key@).0), final(self).ds@ == old(self).ds@,
    { unimplemented!() }
    #[verifier::external_body]
    pub fn smembers(&mut self, db: usize, key: &[u8]) -> (r: Result<Vec<Vec<u8>>>)
        ensures final(self).ds@ == old(self).ds@,
            match spec_smembers(old(self).ds@, db as int, key@).0 { RV::ArrSet(m) => r matches Ok(v) && v@.to_set() == m && v@.no_duplicates(), _ => r matches Err(e) && e == wt() },
    { unimplemented!() }
    // ---- hashes
    #[verifier::external_body]
    pub fn hget(&mut self, db: usize, key: &[u8], field: &[u8]) -> (r: Result<Option<Vec<u8>>>)
        ensures res_opt_bytes(r, spec_hget(old(self).ds@, db as int, key@, field@).0), final(self).ds@ == old(self).ds@,
    { unimplemented!() }
    #[verifier::external_body]
    pub fn hlen(&mut self, db: usize, key: &[u8]) -> (r: Result<usize>)
        ensures res_int(r, spec_hlen(old(self).ds@, db as int, key@).0), final(self).ds@ == old(self).ds@,
    { unimplemented!() }
    #[verifier::external_body]
    pub fn hexists(&mut self, db: usize, key: &[u8], field: &[u8]) -> (r: Result<bool>)
        ensures final(self).ds@ == old(self).ds@,
            match spec_hexists(old(self).ds@, db as int, key@, field@).0 { RV::Int(n) => r matches Ok(b) && b == (n == 1), _ => r matches Err(e) && e == wt() },
    { unimplemented!() }
    #[verifier::external_body]
    pub fn hincrby(&mut self, db: usize, key: Vec<u8>, field: Vec<u8>, increment: i64) -> (r: Result<i64>)
        ensures final(self).ds@ == spec_hincrby(old(self).ds@, db as int, key@, field, increment).1,
            match spec_hincrby(old(self).ds@, db as int, key@, field, increment).0 { RV::Int(n) => r matches Ok(v) && v == n, RV::WrongType => r matches Err(e) && e == wt(), _ => r matches Err(e) && e != wt() },
    { unimplemented!() }
}

/// set-member arrays: same idiom, no duplicates in => no duplicate frames out
#[verifier::external_body]
pub fn verif_bulk_frames_set(v: Vec<Vec<u8>>) -> (r: Vec<RespFrame>)
    ensures r@.len() == v@.len(), forall|i: int| 0 <= i < v@.len() ==> bulk_reply(#[trigger] r@[i]) == Some(Some(v@[i]@)),
{ v.into_iter().map(|e| RespFrame::from_bytes(e)).collect() }

/// `v.into_iter().map(|e| RespFrame::from_bytes(e)).collect()` (iterator adapters are outside Verus' subset): ASSUMED
/// CONTRACT for that idiom — one bulk-string frame per element, in order
#[verifier::external_body]
pub fn verif_bulk_frames(v: Vec<Vec<u8>>) -> (r: Vec<RespFrame>)
    ensures r@.len() == v@.len(), forall|i: int| 0 <= i < v@.len() ==> bulk_reply(#[trigger] r@[i]) == Some(Some(v@[i]@)),
{ v.into_iter().map(|e| RespFrame::from_bytes(e)).collect() }

// ---- key-space and TTL-aware methods (used by the server.rs handler units); same status: ASSUMED CONTRACTS summarising shard_core
/// the only reason a write of a string value is refused by the engine: the memory limit (MemoryManager::add_memory == false)
pub uninterp spec fn mem_exhausted_s(ds: DS, ttl: Map<(int, Seq<u8>), int>) -> bool;
pub open spec fn mem_exhausted(m: EngineModel) -> bool { mem_exhausted_s(m.ds@, m.ttl@) }
pub uninterp spec fn remaining_ns_s(ds: DS, ttl: Map<(int, Seq<u8>), int>, db: int, k: Seq<u8>) -> int;
pub open spec fn remaining_ns(m: EngineModel, db: int, k: Seq<u8>) -> int { remaining_ns_s(m.ds@, m.ttl@, db, k) }
pub open spec fn res_i64(r: Result<i64>, rv: RV) -> bool {
    match rv { RV::Int(n) => r matches Ok(v) && v == n, RV::WrongType => r matches Err(e) && e == wt(), RV::OtherErr => r matches Err(e) && e != wt(), _ => false }
}
impl EngineModel {
    #[verifier::external_body]
    pub fn exists(&mut self, db: usize, key: &[u8]) -> (r: Result<bool>)
        ensures r is Ok, final(self).ds@ == old(self).ds@, final(self).ttl@ == old(self).ttl@, r matches Ok(b) ==> b == old(self).ds@.contains_key((db as int, key@)),
    { unimplemented!() }
    #[verifier::external_body]
    pub fn delete(&mut self, db: usize, key: &[u8]) -> (r: Result<bool>)
        ensures r is Ok,
            r matches Ok(b) ==> b == old(self).ds@.contains_key((db as int, key@)) && final(self).ds@ == old(self).ds@.remove((db as int, key@)) && final(self).ttl@ == old(self).ttl@.remove((db as int, key@)),
    { unimplemented!() }
    #[verifier::external_body]
    pub fn incr_by(&mut self, db: usize, key: Vec<u8>, increment: i64) -> (r: Result<i64>)
        ensures res_i64(r, spec_incrby(old(self).ds@, db as int, key@, increment).0), final(self).ds@ == spec_incrby(old(self).ds@, db as int, key@, increment).1, final(self).ttl@ == old(self).ttl@,
    { unimplemented!() }
    #[verifier::external_body]
    pub fn incr(&mut self, db: usize, key: Vec<u8>) -> (r: Result<i64>)
        ensures res_i64(r, spec_incrby(old(self).ds@, db as int, key@, 1).0), final(self).ds@ == spec_incrby(old(self).ds@, db as int, key@, 1).1, final(self).ttl@ == old(self).ttl@,
    { unimplemented!() }
    /// SET semantics at the engine: value replaced, any TTL removed (named differently from `set_string` above only because that
    /// older contract is silent about `ttl`; RCALL maps `set_string` here in the TTL-aware units)
    #[verifier::external_body]
    pub fn set_string_t(&mut self, db: usize, key: Vec<u8>, value: Vec<u8>) -> (r: Result<()>)
        ensures r is Ok ==> final(self).ds@ == old(self).ds@.insert((db as int, key@), DV::Str(value@)) && final(self).ttl@ == old(self).ttl@.remove((db as int, key@)),
            r is Err ==> mem_exhausted(*old(self)) && final(self).ds@ == old(self).ds@ && final(self).ttl@ == old(self).ttl@,
    { unimplemented!() }
    #[verifier::external_body]
    pub fn set_string_ex(&mut self, db: usize, key: Vec<u8>, value: Vec<u8>, expires_in: Duration) -> (r: Result<()>)
        ensures r is Ok ==> final(self).ds@ == old(self).ds@.insert((db as int, key@), DV::Str(value@)) && final(self).ttl@ == old(self).ttl@.insert((db as int, key@), dur_nanos(expires_in)),
            r is Err ==> mem_exhausted(*old(self)) && final(self).ds@ == old(self).ds@ && final(self).ttl@ == old(self).ttl@,
    { unimplemented!() }
    #[verifier::external_body]
    pub fn set_string_nx(&mut self, db: usize, key: Vec<u8>, value: Vec<u8>) -> (r: Result<bool>)
        ensures
            r matches Ok(b) ==> b == !old(self).ds@.contains_key((db as int, key@)),
            r is Err ==> mem_exhausted(*old(self)),
            r == Ok::<bool, FerrousError>(true) ==> final(self).ds@ == old(self).ds@.insert((db as int, key@), DV::Str(value@)) && final(self).ttl@ == old(self).ttl@.remove((db as int, key@)),
            !(r == Ok::<bool, FerrousError>(true)) ==> final(self).ds@ == old(self).ds@ && final(self).ttl@ == old(self).ttl@,
    { unimplemented!() }
    #[verifier::external_body]
    pub fn set_string_nx_ex(&mut self, db: usize, key: Vec<u8>, value: Vec<u8>, expires_in: Duration) -> (r: Result<bool>)
        ensures
            r matches Ok(b) ==> b == !old(self).ds@.contains_key((db as int, key@)),
            r is Err ==> mem_exhausted(*old(self)),
            r == Ok::<bool, FerrousError>(true) ==> final(self).ds@ == old(self).ds@.insert((db as int, key@), DV::Str(value@)) && final(self).ttl@ == old(self).ttl@.insert((db as int, key@), dur_nanos(expires_in)),
            !(r == Ok::<bool, FerrousError>(true)) ==> final(self).ds@ == old(self).ds@ && final(self).ttl@ == old(self).ttl@,
    { unimplemented!() }
    #[verifier::external_body]
    pub fn expire(&mut self, db: usize, key: &[u8], expires_in: Duration) -> (r: Result<bool>)
        ensures r is Ok, final(self).ds@ == old(self).ds@,
            r matches Ok(b) ==> b == old(self).ds@.contains_key((db as int, key@)) && final(self).ttl@ == (if b { old(self).ttl@.insert((db as int, key@), dur_nanos(expires_in)) } else { old(self).ttl@ }),
            r is Err ==> final(self).ttl@ == old(self).ttl@,
    { unimplemented!() }
    /// remaining time: Some exactly for a present key that carries a TTL (how much remains is the engine's, C02 `ttl` unit)
    #[verifier::external_body]
    pub fn ttl(&mut self, db: usize, key: &[u8]) -> (r: Result<Option<Duration>>)
        ensures r is Ok, final(self).ds@ == old(self).ds@, final(self).ttl@ == old(self).ttl@,
            r matches Ok(o) ==> (o is Some) == (old(self).ds@.contains_key((db as int, key@)) && old(self).ttl@.contains_key((db as int, key@))),
            // the time that remains is a function of the engine state and the clock (uninterpreted here; exact in C02's `ttl` unit);
            // a difference of two Instants: far below the u64 range of whole seconds
            r matches Ok(Some(t)) ==> dur_nanos(t) == remaining_ns(*old(self), db as int, key@) && dur_nanos(t) <= 9_000_000_000_000_000_000 * 1_000_000_000,
    { unimplemented!() }
    /// RENAME at the engine (both shard branches are units in shard_sweeper): value and TTL move to the new name
    #[verifier::external_body]
    pub fn rename(&mut self, db: usize, old_key: &[u8], new_key: Vec<u8>) -> (r: Result<()>)
        ensures
            !old(self).ds@.contains_key((db as int, old_key@)) ==> r is Err && final(self).ds@ == old(self).ds@ && final(self).ttl@ == old(self).ttl@,
            old(self).ds@.contains_key((db as int, old_key@)) ==> r is Ok
                && final(self).ds@ == old(self).ds@.remove((db as int, old_key@)).insert((db as int, new_key@), old(self).ds@[(db as int, old_key@)])
                && final(self).ttl@ == (if old(self).ttl@.contains_key((db as int, old_key@)) { old(self).ttl@.remove((db as int, old_key@)).insert((db as int, new_key@), old(self).ttl@[(db as int, old_key@)]) }
                                        else { old(self).ttl@.remove((db as int, old_key@)).remove((db as int, new_key@)) }),
    { unimplemented!() }
}
}
